// C18 harness: the containers of src/utils driven by one operation per line.
//   <container> <op> [args]      container in {hm, ul, pl, sa, rb, xs, av, po}; one live instance per container,
//                                "<c> new ..." replaces it.  Exactly one output line per input line.
//   pf <op> ...                  a FOREST of pools (hierarchy x reference counting), pools named by order of creation
// iwhmap.c / iwpool.c are included so that the private structs (buckets, lru chain, unit chain) can be printed.
// hm: allocation-failure injection for iwhmap.c ONLY.  Every malloc / calloc / realloc / strdup / free of iwhmap.c goes
// through the hm_*_hook functions (defined in the hash map section): `hm failat <n> <sites>` makes the n-th allocation call
// from now on whose site is in <sites> return 0 with errno = ENOMEM (one shot).  Sites, by calling function:
//   chm cbk (iwhmap_create: malloc, calloc)  add (_entry_add called by put / rename)  readd (_entry_add inside _rehash)
//   rehash (_rehash: calloc)  node (_lru_entry_update: malloc)  shrink (_entry_remove: realloc)  clear (iwhmap_clear: realloc)
//   strdup (iwhmap_put_str)
#include <stdlib.h>
#include <string.h>
#include <errno.h>
#include <assert.h>
#include "iwhmap.h"
#include "iwlog.h"
#include "wyhash32.h"
static void *hm_malloc_hook(size_t n, const char *fn);
static void *hm_calloc_hook(size_t c, size_t n, const char *fn);
static void *hm_realloc_hook(void *p, size_t n, const char *fn);
static char *hm_strdup_hook(const char *s, const char *fn);
static void hm_free_hook(void *p, const char *fn);
#undef strdup
#define malloc(n_) hm_malloc_hook(n_, __func__)
#define calloc(c_, n_) hm_calloc_hook(c_, n_, __func__)
#define realloc(p_, n_) hm_realloc_hook(p_, n_, __func__)
#define strdup(s_) hm_strdup_hook(s_, __func__)
#define free(p_) hm_free_hook(p_, __func__)
#include "utils/iwhmap.c"
#undef malloc
#undef calloc
#undef realloc
#undef strdup
#undef free
// every free() issued by iwpool.c goes through po_free_hook (defined in the pool section below): it tells the harness which
// pool struct / how many unit blocks are released and in which order, and - in the build without ASan - it fills the block
// with 0xDD and keeps it in a quarantine instead of recycling it (a read through a stale pointer yields 0xDDDD... and
// faults, a write is found when the quarantine is scanned).  The ASan build passes the block on to ASan's own quarantine.
#include <stdlib.h>
static void po_free_hook(void *p);
static void pq_flush(void);
#define free(p_) po_free_hook(p_)
#include "utils/iwpool.c"
#undef free
#include "iwarr.h"
#include "iwrb.h"
#include "iwxstr.h"
#include "iwavl.h"
#include "hcommon.h"
#include <malloc.h>

// hcommon's unhex leaves the one-byte buffer of "-" unwritten; every buffer here is used as a C string too
static size_t unhexz(const char *h, uint8_t **out) {
  size_t l = unhex(h, out);
  (*out)[l] = 0;
  return l;
}

static const char* rcs(iwrc rc) {
  return rc == 0 ? "0" : rc == IW_ERROR_OUT_OF_BOUNDS ? "oob" : "err";
}

// CRC-32 (zlib polynomial) of the list contents: the brief state line of the long directed scripts
static uint32_t crc_upd(uint32_t c, const void *p, size_t n) {
  const uint8_t *b = p;
  for (size_t i = 0; i < n; ++i) {
    c ^= b[i];
    for (int k = 0; k < 8; ++k) c = (c >> 1) ^ (0xedb88320u & (0u - (c & 1u)));
  }
  return c;
}

// ------------------------------------------------------------------------------------------- hash map
static char flog[1 << 16];
static size_t flen;
static int hm_kind; // 0 u32, 1 u64, 2 str, 3 ptr, 4 skv (str keys, kv_free_fn = iwhmap_kv_free: no callback log)
#define HM_STR (hm_kind == 2 || hm_kind == 4)
static struct iwhmap *hm;

// ---- allocation-failure injection (see the top of the file)
enum { HS_CHM, HS_CBK, HS_ADD, HS_READD, HS_REHASH, HS_NODE, HS_SHRINK, HS_CLEAR, HS_STRDUP, HS_N };
static const char *hs_name[HS_N] = { "chm", "cbk", "add", "readd", "rehash", "node", "shrink", "clear", "strdup" };
static long hm_fail_n;          // > 0: armed, counts down on every matching site
static unsigned hm_fail_sites;  // bit set of sites that count
static char hm_af[64];          // sites that failed during the current line
static int hm_in_rehash;        // between the successful calloc of _rehash and its last free
static void *hm_rh_new, *hm_rh_old;

static int hm_fails(int site) {
  if (hm_fail_n > 0 && (hm_fail_sites & (1u << site)) && --hm_fail_n == 0) {
    size_t l = strlen(hm_af);
    snprintf(hm_af + l, sizeof(hm_af) - l, "%s%s", l ? "," : "", hs_name[site]);
    errno = ENOMEM;
    return 1;
  }
  return 0;
}

static void put_af(void) {
  if (hm_af[0]) printf(" af=%s", hm_af);
  hm_af[0] = 0;
}

static void *hm_malloc_hook(size_t n, const char *fn) {
  int site = !strcmp(fn, "iwhmap_create") ? HS_CHM : !strcmp(fn, "_lru_entry_update") ? HS_NODE : -1;
  if (site >= 0 && hm_fails(site)) return 0;
  return malloc(n);
}

static void *hm_calloc_hook(size_t c, size_t n, const char *fn) {
  int site = !strcmp(fn, "iwhmap_create") ? HS_CBK : !strcmp(fn, "_rehash") ? HS_REHASH : -1;
  if (site >= 0 && hm_fails(site)) return 0;
  void *p = calloc(c, n);
  if (site == HS_REHASH && p) { hm_in_rehash = 1; hm_rh_new = p; hm_rh_old = hm ? hm->buckets : 0; }
  return p;
}

static void *hm_realloc_hook(void *p, size_t n, const char *fn) {
  int site = !strcmp(fn, "_entry_add") ? (hm_in_rehash ? HS_READD : HS_ADD) : !strcmp(fn, "_entry_remove") ? HS_SHRINK
             : !strcmp(fn, "iwhmap_clear") ? HS_CLEAR : -1;
  if (site >= 0 && hm_fails(site)) return 0;
  return realloc(p, n);
}

static char *hm_strdup_hook(const char *s_, const char *fn) {
  if (!strcmp(fn, "iwhmap_put_str") && hm_fails(HS_STRDUP)) return 0;
  return strdup(s_);
}

static void hm_free_hook(void *p, const char *fn) {
  if (hm_in_rehash && !strcmp(fn, "_rehash") && p && (p == hm_rh_new || p == hm_rh_old)) hm_in_rehash = 0;
  free(p);
}

static void flog_add(const char *s) {
  size_t l = strlen(s);
  if (flen + l + 2 < sizeof(flog)) {
    if (flen) flog[flen++] = ',';
    memcpy(flog + flen, s, l + 1);
    flen += l;
  }
}

static void put_flog(void) {
  printf(" f=%s", flen ? flog : "-");
  flen = 0; flog[0] = 0;
}

static void keyrepr(char *out, size_t n, const void *key) {
  if (HM_STR) {
    if (!key) { snprintf(out, n, "0"); return; }
    size_t l = strlen(key), w = 0;
    if (!l) { snprintf(out, n, "-"); return; }
    for (size_t i = 0; i < l && w + 3 < n; ++i) w += snprintf(out + w, n - w, "%02x", ((const uint8_t*) key)[i]);
  } else {
    snprintf(out, n, "%" PRIu64, (uint64_t) (uintptr_t) key);
  }
}

static void hm_free_cb(void *key, void *val) {
  char kb[600], b[700];
  keyrepr(kb, sizeof(kb), key);
  int64_t id = 0;
  if (val) { id = *(int64_t*) val; *(int64_t*) val = -1; free(val); }
  if (key && hm_kind == 2) free(key);
  snprintf(b, sizeof(b), "%s/%" PRId64, kb, id);
  flog_add(b);
}

static uint32_t hm_ptr_hash(const void *key) {
  return (uint32_t) ((uintptr_t) key % 97);
}

static void* mkval(const char *s) {
  int64_t id = strtoll(s, 0, 10);
  if (!id) return 0;
  int64_t *p = malloc(sizeof(*p));
  *p = id;
  return p;
}

static void hm_line(int n, char **tv) {
  const char *op = tv[1];
  if (!strcmp(op, "new")) {
    if (hm) { iwhmap_destroy(hm); hm = 0; }
    flen = 0; flog[0] = 0;
    hm_kind = !strcmp(tv[2], "u32") ? 0 : !strcmp(tv[2], "u64") ? 1 : !strcmp(tv[2], "str") ? 2
              : !strcmp(tv[2], "skv") ? 4 : 3;
    long lru = strtol(tv[3], 0, 10);
    hm = hm_kind == 0 ? iwhmap_create_u32(hm_free_cb) : hm_kind == 1 ? iwhmap_create_u64(hm_free_cb)
         : hm_kind == 2 ? iwhmap_create_str(hm_free_cb) : hm_kind == 4 ? iwhmap_create_str(iwhmap_kv_free)
         : iwhmap_create(0, hm_ptr_hash, hm_free_cb);
    if (!hm) { printf("null"); put_af(); printf("\n"); return; }   // allocation failure in iwhmap_create
    if (lru >= 0) iwhmap_lru_init(hm, iwhmap_lru_eviction_max_count, (void*) (uintptr_t) lru);
    printf("ok\n");
    return;
  }
  if (!strcmp(op, "failat")) {           // hm failat <n> <all | site,site,...>: the n-th matching allocation from now on fails
    hm_fail_n = strtol(tv[2], 0, 10);
    hm_fail_sites = 0;
    for (int i = 0; i < HS_N; ++i) {
      const char *f = strstr(tv[3], hs_name[i]);
      // "add" is a suffix of "readd": accept a match only at the start of a list element
      while (f && f != tv[3] && f[-1] != ',') f = strstr(f + 1, hs_name[i]);
      if (!strcmp(tv[3], "all") || f) hm_fail_sites |= 1u << i;
    }
    hm_af[0] = 0;
    printf("ok\n");
    return;
  }
  if (!strcmp(op, "failoff")) {
    printf("ok\n");
    hm_fail_n = 0; hm_af[0] = 0;
    return;
  }
  // header functions that need no live map
  if (!strcmp(op, "create0")) {          // iwhmap_create without hash function
    struct iwhmap *h0 = iwhmap_create(0, 0, hm_free_cb);
    printf("null=%d\n", h0 == 0);
    if (h0) iwhmap_destroy(h0);
    return;
  }
  if (!strcmp(op, "null")) {             // iwhmap_clear(0) / iwhmap_destroy(0)
    iwhmap_clear(0); iwhmap_destroy(0);
    printf("ok\n");
    return;
  }
  if (!strcmp(op, "kvfree")) {           // iwhmap_kv_free: both arguments released (ASan / LSan judge), zeros tolerated
    iwhmap_kv_free(malloc(8), malloc(24)); iwhmap_kv_free(0, malloc(8)); iwhmap_kv_free(malloc(8), 0); iwhmap_kv_free(0, 0);
    printf("ok\n");
    return;
  }
  if (!strcmp(op, "iter0")) {            // iterator without map
    struct iwhmap_iter it;
    iwhmap_iter_init(0, &it);
    bool r1 = iwhmap_iter_next(&it), r2 = iwhmap_iter_next(&it);
    printf("r=%d%d ib=%u ie=%d\n", (int) r1, (int) r2, it.bucket, (int) it.entry);
    return;
  }
  if (!hm) { printf("nohm\n"); return; }
  uint8_t *ks = 0, *ks2 = 0;
  uint64_t k = 0, k2 = 0;
  if (!strcmp(op, "lruinit")) {          // iwhmap_lru_init at any time
    iwhmap_lru_init(hm, iwhmap_lru_eviction_max_count, (void*) (uintptr_t) strtoul(tv[2], 0, 10));
    printf("ok\n");
    return;
  }
  if (!strcmp(op, "evmax")) {
    printf("r=%d\n", (int) iwhmap_lru_eviction_max_count(hm, (void*) (uintptr_t) strtoul(tv[2], 0, 10)));
    return;
  }
  if (n > 2) { if (HM_STR) unhexz(tv[2], &ks); else k = strtoull(tv[2], 0, 10); }
  if (!strcmp(op, "put")) {
    void *v = mkval(tv[3]);
    iwrc rc = hm_kind == 0 ? iwhmap_put_u32(hm, (uint32_t) k, v) : hm_kind == 1 ? iwhmap_put_u64(hm, k, v)
              : HM_STR ? iwhmap_put_str(hm, (char*) ks, v) : iwhmap_put(hm, (void*) (uintptr_t) k, v);
    if (rc && v) free(v);   // a failed put leaves key and value with the caller
    printf("rc=%s n=%u", rcs(rc), iwhmap_count(hm)); put_flog(); put_af(); printf("\n");
  } else if (!strcmp(op, "get")) {
    void *v = hm_kind == 0 ? iwhmap_get_u32(hm, (uint32_t) k) : hm_kind == 1 ? iwhmap_get_u64(hm, k)
              : HM_STR ? iwhmap_get(hm, ks) : iwhmap_get(hm, (void*) (uintptr_t) k);
    if (v) printf("v=%" PRId64, *(int64_t*) v); else printf("v=nil");
    printf(" n=%u", iwhmap_count(hm)); put_flog(); put_af(); printf("\n");
  } else if (!strcmp(op, "rm")) {
    bool r = hm_kind == 0 ? iwhmap_remove_u32(hm, (uint32_t) k) : hm_kind == 1 ? iwhmap_remove_u64(hm, k)
             : HM_STR ? iwhmap_remove(hm, ks) : iwhmap_remove(hm, (void*) (uintptr_t) k);
    printf("r=%d n=%u", (int) r, iwhmap_count(hm)); put_flog(); put_af(); printf("\n");
  } else if (!strcmp(op, "ren")) {
    iwrc rc;
    if (HM_STR) {
      unhexz(tv[3], &ks2);
      // the new key is owned by the map only when the old key exists (the return code does not tell)
      bool have = _entry_find(hm, ks, hm->hash_key_fn(ks)) != 0;
      char *nk = strdup((char*) ks2);
      rc = iwhmap_rename(hm, ks, nk);
      if (!have || rc) free(nk);   // ... and only when the call succeeded
    } else {
      k2 = strtoull(tv[3], 0, 10);
      rc = iwhmap_rename(hm, (void*) (uintptr_t) k, (void*) (uintptr_t) k2);
    }
    printf("rc=%s n=%u", rcs(rc), iwhmap_count(hm)); put_flog(); put_af(); printf("\n");
  } else if (!strcmp(op, "clear")) {
    iwhmap_clear(hm);
    printf("n=%u", iwhmap_count(hm)); put_flog(); put_af(); printf("\n");
  } else if (!strcmp(op, "count")) {
    printf("n=%u\n", iwhmap_count(hm));
  } else if (!strcmp(op, "iter") || !strcmp(op, "iterx")) {
    // st = calls that returned true, ib/ie = iter->bucket / iter->entry after the call that returned false;
    // iterx: one MORE iwhmap_iter_next after the end
    struct iwhmap_iter it;
    iwhmap_iter_init(hm, &it);
    printf("it=");
    int c = 0;
    char kb[600];
    while (iwhmap_iter_next(&it)) {
      keyrepr(kb, sizeof(kb), it.key);
      printf("%s%s:%" PRId64, c++ ? "," : "", kb, it.val ? *(const int64_t*) it.val : 0);
    }
    if (!c) printf("-");
    printf(" st=%d ib=%u ie=%d", c, it.bucket, (int) it.entry);
    if (op[4]) {
      fflush(stdout);
      bool again = iwhmap_iter_next(&it);
      printf(" again=%d ib2=%u", (int) again, it.bucket);
    }
    printf("\n");
  } else if (!strcmp(op, "lru")) {
    // forward walk; prev links and last are compared as pointers only (never dereferencing hm->lru_last)
    int wf = 1, c = 0;
    char kb[600];
    lru_node_t *prev = 0, *nd = hm->lru_first;
    uint32_t lim = iwhmap_count(hm) + 4;
    static char lb[1 << 16];
    size_t w = 0;
    lb[0] = 0;
    for ( ; nd && lim; nd = nd->next, --lim) {
      if (nd->prev != prev) wf = 0;
      keyrepr(kb, sizeof(kb), nd->key);
      if (w + strlen(kb) + 2 < sizeof(lb)) w += snprintf(lb + w, sizeof(lb) - w, "%s%s", c ? "," : "", kb);
      ++c;
      prev = nd;
    }
    if (nd) wf = 0;
    if (hm->lru_last != prev) wf = 0;
    printf("wf=%d lru=%s\n", wf, c ? lb : "-");
  } else if (!strcmp(op, "shape")) {
    printf("mask=%u b=", hm->buckets_mask);
    int c = 0;
    for (uint32_t i = 0; i <= hm->buckets_mask; ++i) {
      bucket_t *b = hm->buckets + i;
      if (b->used || b->total) printf("%s%u:%u/%u", c++ ? "," : "", i, b->used, b->total);
    }
    if (!c) printf("-");
    printf("\n");
  } else if (!strcmp(op, "destroy")) {
    iwhmap_destroy(hm); hm = 0;
    printf("d"); put_flog(); put_af(); printf("\n");
  } else {
    printf("?\n");
  }
  free(ks); free(ks2);
}

// ------------------------------------------------------------------------------------------- unit list
static struct iwulist *ul;
static int ul_brief; // "ul brief 1": state lines carry a checksum + first/last unit instead of all units

static void ul_state(const struct iwulist *l) {
  if (ul_brief) {
    uint32_t c = 0xffffffffu;
    for (size_t i = 0; i < l->num; ++i) c = crc_upd(c, iwulist_get(l, i), l->usize);
    printf(" n=%zu st=%zu an=%zu crc=%08x hd=", l->num, l->start, l->anum, (unsigned) ~c);
    if (l->num) puthex(iwulist_get(l, 0), l->usize); else printf("none");
    printf(" tl=");
    if (l->num) puthex(iwulist_get(l, l->num - 1), l->usize); else printf("none");
    return;
  }
  printf(" n=%zu st=%zu an=%zu d=", iwulist_length(l), l->start, l->anum);
  if (!l->num) printf("-");
  for (size_t i = 0; i < l->num; ++i) {
    void *p = iwulist_get(l, i);
    if (i) printf(".");
    puthex(p, l->usize);
  }
}

static int ul_cmp(const void *a, const void *b, void *op) {
  return memcmp(a, b, (size_t) (uintptr_t) op);
}

// unit payload: hex padded/truncated to usize
static void* unit(const char *h, size_t usize) {
  uint8_t *b; size_t l = unhexz(h, &b);
  uint8_t *u = calloc(1, usize + 1);
  memcpy(u, b, l < usize ? l : usize);
  free(b);
  return u;
}

// "ul newinit": the list struct belongs to the caller (iwulist_init / iwulist_destroy_keep instead of create / destroy)
static struct iwulist ul_own;
static void ul_drop(void) {
  if (!ul) return;
  if (ul == &ul_own) { iwulist_destroy_keep(ul); ul = 0; } else iwulist_destroy(&ul);
}

static void ul_line(int n, char **tv) {
  const char *op = tv[1];
  if (!strcmp(op, "newinit")) {
    ul_drop();
    ul_brief = 0;
    iwrc rc = iwulist_init(&ul_own, strtoul(tv[3], 0, 10), strtoul(tv[2], 0, 10));
    if (rc) { printf("err\n"); return; }
    ul = &ul_own;
    printf("ok"); ul_state(ul); printf("\n");
    return;
  }
  if (!strcmp(op, "new")) {
    ul_drop();
    ul_brief = 0;
    ul = iwulist_create(strtoul(tv[3], 0, 10), strtoul(tv[2], 0, 10));
    printf("ok"); ul_state(ul); printf("\n");
    return;
  }
  if (!strcmp(op, "brief")) { ul_brief = atoi(tv[2]) != 0; printf("ok\n"); return; }
  if (!ul) { printf("noul\n"); return; }
  size_t us = ul->usize;
  if (!strcmp(op, "push") || !strcmp(op, "unshift")) {
    void *u = unit(tv[2], us);
    iwrc rc = op[0] == 'p' ? iwulist_push(ul, u) : iwulist_unshift(ul, u);
    free(u);
    printf("rc=%s", rcs(rc)); ul_state(ul); printf("\n");
  } else if (!strcmp(op, "pop") || !strcmp(op, "shift")) {
    iwrc rc = op[0] == 'p' ? iwulist_pop(ul) : iwulist_shift(ul);
    printf("rc=%s", rcs(rc)); ul_state(ul); printf("\n");
  } else if (!strcmp(op, "insert") || !strcmp(op, "set")) {
    void *u = unit(tv[3], us);
    size_t idx = strtoul(tv[2], 0, 10);
    iwrc rc = op[0] == 'i' ? iwulist_insert(ul, idx, u) : iwulist_set(ul, idx, u);
    free(u);
    printf("rc=%s", rcs(rc)); ul_state(ul); printf("\n");
  } else if (!strcmp(op, "rm")) {
    iwrc rc = iwulist_remove(ul, strtoul(tv[2], 0, 10));
    printf("rc=%s", rcs(rc)); ul_state(ul); printf("\n");
  } else if (!strcmp(op, "rmby")) {
    void *u = unit(tv[2], us);
    bool r = iwulist_remove_first_by(ul, u);
    free(u);
    printf("r=%d", (int) r); ul_state(ul); printf("\n");
  } else if (!strcmp(op, "find")) {
    void *u = unit(tv[2], us);
    ssize_t r = iwulist_find_first(ul, u);
    free(u);
    printf("i=%zd\n", r);
  } else if (!strcmp(op, "at")) {
    iwrc rc;
    size_t idx = strtoul(tv[2], 0, 10);
    void *p = iwulist_at(ul, idx, &rc), *p2 = iwulist_at2(ul, idx);
    printf("rc=%s v=", rcs(rc));
    if (p) puthex(p, us); else printf("nil");
    printf(" same=%d\n", p == p2);
  } else if (!strcmp(op, "clone")) {
    struct iwulist *c = iwulist_clone(ul);
    printf("c"); ul_state(c); printf("\n");
    iwulist_destroy(&c);
  } else if (!strcmp(op, "copy")) {
    // copy <il> [hex units already in the target, separated by dots]
    struct iwulist *c = iwulist_create(strtoul(tv[2], 0, 10), us);
    if (n > 3) {
      char *sp = 0;
      for (char *t = strtok_r(tv[3], ".", &sp); t; t = strtok_r(0, ".", &sp)) { void *u = unit(t, us); iwulist_push(c, u); free(u); }
    }
    iwrc rc = iwulist_copy(ul, c);
    printf("rc=%s", rcs(rc)); ul_state(c); printf("\n");
    iwulist_destroy(&c);
  } else if (!strcmp(op, "clear")) {
    iwrc rc = iwulist_clear(ul);
    printf("rc=%s", rcs(rc)); ul_state(ul); printf("\n");
  } else if (!strcmp(op, "reset")) {
    iwulist_reset(ul);
    printf("rc=0"); ul_state(ul); printf("\n");
  } else if (!strcmp(op, "sort")) {
    iwulist_sort(ul, ul_cmp, (void*) (uintptr_t) us);
    printf("rc=0"); ul_state(ul); printf("\n");
  } else if (!strcmp(op, "dump")) {
    // always the full contents
    int b = ul_brief; ul_brief = 0;
    printf("rc=0"); ul_state(ul);
    ul_brief = b;
    printf(" arr=%d\n", ul->num == 0 || iwulist_array(ul) == iwulist_get(ul, 0));
  } else if (!strcmp(op, "destroy")) {
    // after destroy_keep the caller's struct is zeroed
    int own = ul == &ul_own;
    ul_drop();
    printf("d%s\n", own && (ul_own.array || ul_own.num || ul_own.anum || ul_own.start || ul_own.usize) ? " dirty" : "");
  } else {
    printf("?\n");
  }
}

// ------------------------------------------------------------------------------------------- pointer list
static IWLIST *pl;
static int pl_brief; // "pl brief 1": state lines carry a checksum + first/last item instead of all items

static void pl_item(const IWLIST *l, size_t i) {
  size_t sz = 0;
  char *p = iwlist_get(l, i, &sz);
  if (!p) printf("nil"); else if (sz > (1 << 20)) printf("size!%zu", sz); else puthex(p, sz);
}

static void pl_state(const IWLIST *l) {
  int z = 1;
  if (pl_brief) {
    // checksum over (size & 255, bytes) of every item
    uint32_t c = 0xffffffffu;
    for (size_t i = 0; i < l->num; ++i) {
      size_t sz = 0;
      char *p = iwlist_get(l, i, &sz);
      uint8_t b = (uint8_t) sz;
      if (!p || sz > (1 << 20)) { z = 0; b = 0xff; c = crc_upd(c, &b, 1); continue; }
      c = crc_upd(c, &b, 1);
      c = crc_upd(c, p, sz);
      if (p[sz] != 0) z = 0;
    }
    printf(" n=%zu st=%zu an=%zu crc=%08x hd=", l->num, l->start, l->anum, (unsigned) ~c);
    if (l->num) pl_item(l, 0); else printf("none");
    printf(" tl=");
    if (l->num) pl_item(l, l->num - 1); else printf("none");
    printf(" z=%d", z);
    return;
  }
  printf(" n=%zu st=%zu an=%zu d=", l->num, l->start, l->anum);
  if (!l->num) printf("-");
  for (size_t i = 0; i < l->num; ++i) {
    size_t sz = 0;
    char *p = iwlist_get(l, i, &sz);
    if (i) printf(".");
    if (!p) { printf("nil"); continue; }
    if (sz > (1 << 20)) { printf("size!%zu", sz); z = 0; continue; }
    puthex(p, sz);
    if (p[sz] != 0) z = 0;
  }
  printf(" z=%d", z);
}

static int pl_cmp(const IWLISTITEM *a, const IWLISTITEM *b, void *op) {
  size_t m = a->size < b->size ? a->size : b->size;
  int r = memcmp(a->val, b->val, m);
  return r ? r : a->size < b->size ? -1 : a->size > b->size ? 1 : 0;
}

static IWLIST pl_own;
static void pl_drop(void) {
  if (!pl) return;
  if (pl == &pl_own) { iwlist_destroy_keep(pl); pl = 0; } else iwlist_destroy(&pl);
}

static void pl_line(int n, char **tv) {
  const char *op = tv[1];
  if (!strcmp(op, "newinit")) {
    pl_drop();
    pl_brief = 0;
    iwrc rc = iwlist_init(&pl_own, strtoul(tv[2], 0, 10));
    if (rc) { printf("err\n"); return; }
    pl = &pl_own;
    printf("ok"); pl_state(pl); printf("\n");
    return;
  }
  if (!strcmp(op, "new")) {
    pl_drop();
    pl_brief = 0;
    pl = iwlist_create(strtoul(tv[2], 0, 10));
    printf("ok"); pl_state(pl); printf("\n");
    return;
  }
  if (!strcmp(op, "brief")) { pl_brief = atoi(tv[2]) != 0; printf("ok\n"); return; }
  if (!pl) { printf("nopl\n"); return; }
  if (!strcmp(op, "push") || !strcmp(op, "unshift")) {
    uint8_t *b; size_t l = unhexz(tv[2], &b);
    iwrc rc = op[0] == 'p' ? iwlist_push(pl, b, l) : iwlist_unshift(pl, b, l);
    free(b);
    printf("rc=%s", rcs(rc)); pl_state(pl); printf("\n");
  } else if (!strcmp(op, "pop") || !strcmp(op, "shift") || !strcmp(op, "rm")) {
    iwrc rc; size_t sz = 0;
    // a trailing "n": the optional osize argument is NULL (the size is then taken from the terminator the list keeps)
    int nul = n > 2 && !strcmp(tv[n - 1], "n");
    size_t *osz = nul ? 0 : &sz;
    char *v = op[0] == 'p' ? iwlist_pop(pl, osz, &rc) : op[0] == 's' ? iwlist_shift(pl, osz, &rc)
              : iwlist_remove(pl, strtoul(tv[2], 0, 10), osz, &rc);
    if (nul && v) sz = strlen(v);
    printf("rc=%s v=", rcs(rc));
    // ownership: the element handed to the caller must not be referenced by the list any more (the caller frees it)
    int dup = 0;
    if (v) for (size_t i = 0; i < pl->num; ++i) if (pl->array[pl->start + i].val == v) dup = 1;
    if (v) { if (sz > (1 << 20)) printf("size!%zu", sz); else puthex(v, sz); free(v); } else printf("nil");
    if (dup) printf(" own=dup");
    pl_state(pl); printf("\n");
  } else if (!strcmp(op, "insert") || !strcmp(op, "set")) {
    uint8_t *b; size_t l = unhexz(tv[3], &b);
    size_t idx = strtoul(tv[2], 0, 10);
    iwrc rc = op[0] == 'i' ? iwlist_insert(pl, idx, b, l) : iwlist_set(pl, idx, b, l);
    free(b);
    printf("rc=%s", rcs(rc)); pl_state(pl); printf("\n");
  } else if (!strcmp(op, "at")) {
    iwrc rc; size_t sz = 0, sz2 = 0;
    size_t idx = strtoul(tv[2], 0, 10);
    int nul = n > 3 && !strcmp(tv[n - 1], "n");
    char *p = iwlist_at(pl, idx, nul ? 0 : &sz, &rc), *p2 = iwlist_at2(pl, idx, nul ? 0 : &sz2);
    size_t sz3 = 0;
    char *p3 = iwlist_get(pl, idx, nul ? 0 : &sz3);
    if (nul && p) sz = sz2 = sz3 = strlen(p);
    printf("rc=%s v=", rcs(rc));
    if (p) puthex(p, sz); else printf("nil");
    printf(" same=%d\n", p == p2 && sz == sz2 && p == p3 && sz == sz3 && iwlist_length(pl) == pl->num);
  } else if (!strcmp(op, "clone")) {
    IWLIST *c = iwlist_clone(pl);
    printf("c"); pl_state(c); printf("\n");
    iwlist_destroy(&c);
  } else if (!strcmp(op, "sort")) {
    iwlist_sort(pl, pl_cmp, 0);
    printf("rc=0"); pl_state(pl); printf("\n");
  } else if (!strcmp(op, "dump")) {
    // always the full contents
    int b = pl_brief; pl_brief = 0;
    printf("rc=0"); pl_state(pl); printf("\n");
    pl_brief = b;
  } else if (!strcmp(op, "destroy")) {
    int own = pl == &pl_own;
    pl_drop();
    printf("d%s\n", own && (pl_own.array || pl_own.num || pl_own.anum || pl_own.start) ? " dirty" : "");
  } else {
    printf("?\n");
  }
}

// ------------------------------------------------------------------------------------------- sorted array helpers
struct sael { int32_t key; int32_t tag; };
static struct sael *sa;
static size_t sa_n, sa_cap;

static int sa_cmp(const void *a, const void *b) {
  int32_t x = ((const struct sael*) a)->key, y = ((const struct sael*) b)->key;
  return x < y ? -1 : x > y ? 1 : 0;
}

static int sa_cmp2(const void *a, const void *b, void *op) {
  return sa_cmp(a, b);
}

static void sa_state(void) {
  printf(" n=%zu d=", sa_n);
  if (!sa_n) printf("-");
  for (size_t i = 0; i < sa_n; ++i) printf("%s%d:%d", i ? "," : "", sa[i].key, sa[i].tag);
}

static void sa_line(int n, char **tv) {
  const char *op = tv[1];
  if (!strcmp(op, "new")) {
    free(sa);
    sa_cap = strtoul(tv[2], 0, 10); sa_n = 0;
    // exactly sa_cap elements: an insert into the array with sa_cap - 1 elements fills the allocation to the last byte
    sa = malloc(sizeof(*sa) * (sa_cap ? sa_cap : 1));
    printf("ok\n");
    return;
  }
  if (!sa) { printf("nosa\n"); return; }
  struct sael e = { (int32_t) strtol(tv[2], 0, 10), n > 3 ? (int32_t) strtol(tv[3], 0, 10) : 0 };
  if (!strcmp(op, "ins")) {
    if (sa_n >= sa_cap) { printf("full\n"); return; }
    off_t i = iwarr_sorted_insert(sa, sa_n, sizeof(*sa), &e, sa_cmp, atoi(tv[4]) != 0);
    if (i >= 0) ++sa_n;
    printf("i=%lld", (long long) i); sa_state(); printf("\n");
  } else if (!strcmp(op, "rm")) {
    off_t i = iwarr_sorted_remove(sa, sa_n, sizeof(*sa), &e, sa_cmp);
    if (i >= 0) --sa_n;
    printf("i=%lld", (long long) i); sa_state(); printf("\n");
  } else if (!strcmp(op, "find")) {
    off_t i = iwarr_sorted_find(sa, sa_n, sizeof(*sa), &e, sa_cmp);
    printf("i=%lld\n", (long long) i);
  } else if (!strcmp(op, "find2")) {
    union { bool b; unsigned char c; } f;
    f.c = 0xAA; // "not written" marker
    off_t i = iwarr_sorted_find2(sa, sa_n, sizeof(*sa), &e, 0, &f.b, sa_cmp2);
    if (f.c == 0xAA) printf("i=%lld found=unset\n", (long long) i);
    else printf("i=%lld found=%d\n", (long long) i, (int) f.c);
  } else {
    printf("?\n");
  }
}

// ------------------------------------------------------------------------------------------- ring buffer
static IWRB *rb;

static void rb_state(void) {
  void *p = iwrb_peek(rb);
  printf("pos=%zd n=%zu pk=", rb->pos, iwrb_num_cached(rb));
  if (p) puthex(p, rb->usize); else printf("nil");
  printf(" it=");
  IWRB_ITER it;
  iwrb_iter_init(rb, &it);
  int c = 0;
  for (size_t lim = rb->len + 3; lim; --lim) {
    void *q = iwrb_iter_prev(&it);
    if (!q) break;
    if (c++) printf(".");
    puthex(q, rb->usize);
  }
  if (!c) printf("-");
  printf("\n");
}

static void rb_line(int n, char **tv) {
  const char *op = tv[1];
  if (!strcmp(op, "new")) {
    if (rb) iwrb_destroy(&rb);
    rb = iwrb_create(strtoul(tv[2], 0, 10), strtoul(tv[3], 0, 10));
    if (!rb) { printf("null\n"); return; }
    rb_state();
    return;
  }
  if (!strcmp(op, "wrap")) {
    // wrap <usize> <buflen>: iwrb_wrap on an exact-size heap buffer (the ring lives inside it; iwrb_destroy frees it)
    if (rb) iwrb_destroy(&rb);
    size_t us = strtoul(tv[2], 0, 10), bl = strtoul(tv[3], 0, 10);
    void *buf = malloc(bl ? bl : 1);
    rb = iwrb_wrap(buf, bl, us);
    if (!rb) { free(buf); printf("null\n"); return; }
    printf("len=%zu inbuf=%d ", rb->len, (void*) rb == buf && rb->buf == (char*) buf + sizeof(IWRB));
    rb_state();
    return;
  }
  if (!rb) { printf("norb\n"); return; }
  if (!strcmp(op, "put")) {
    void *u = unit(tv[2], rb->usize);
    iwrb_put(rb, u);
    free(u);
    rb_state();
  } else if (!strcmp(op, "back")) {
    iwrb_back(rb); rb_state();
  } else if (!strcmp(op, "clear")) {
    iwrb_clear(rb); rb_state();
  } else if (!strcmp(op, "state")) {
    rb_state();
  } else if (!strcmp(op, "destroy")) {
    iwrb_destroy(&rb);
    printf("d\n");
  } else {
    printf("?\n");
  }
}

// ------------------------------------------------------------------------------------------- growable string
static struct iwxstr *xs;

static void xs_state(struct iwxstr *x) {
  size_t sz = iwxstr_size(x);
  printf(" sz=%zu asz=%zu d=", sz, iwxstr_asize(x));
  puthex(iwxstr_ptr(x), sz);
  printf(" z=%d", sz < iwxstr_asize(x) ? iwxstr_ptr(x)[sz] == 0 : -1);
}

// user data of the string: tokens, the destructor logs them
static char xs_udlog[4096];
static size_t xs_udl;
static void xs_ud_free(void *d) {
  int tok = d ? *(int*) d : 0;
  if (xs_udl + 16 < sizeof(xs_udlog)) xs_udl += snprintf(xs_udlog + xs_udl, sizeof(xs_udlog) - xs_udl, "%s%d", xs_udl ? "," : "", tok);
  free(d);
}
static void xs_put_udlog(void) {
  printf(" ud=%s", xs_udl ? xs_udlog : "-");
  xs_udl = 0; xs_udlog[0] = 0;
}
// tokens handed to iwxstr_user_data_set without a destructor (or detached) stay owned by the harness
static void *xs_own[256];
static int xs_nown;
static void xs_own_flush(void) { for (int i = 0; i < xs_nown; ++i) free(xs_own[i]); xs_nown = 0; }

static void xs_line(int n, char **tv) {
  const char *op = tv[1];
  if (!strcmp(op, "new") || !strcmp(op, "empty")) {
    if (xs) iwxstr_destroy(xs);
    xs_udl = 0; xs_udlog[0] = 0; xs_own_flush();
    xs = op[0] == 'e' ? iwxstr_create_empty() : iwxstr_create(strtoul(tv[2], 0, 10));
    printf("ok"); xs_state(xs); printf("\n");
    return;
  }
  if (!strcmp(op, "palloc") || !strcmp(op, "newprintf")) {
    // palloc <hex s> <int>: iwxstr_printf_alloc("%s:%d") - a malloc'ed C string; newprintf: iwxstr_new_printf - a fresh string
    uint8_t *b; unhexz(tv[2], &b);
    int v = atoi(tv[3]);
    if (op[0] == 'p') {
      char *r = iwxstr_printf_alloc("%s:%d", (char*) b, v);
      printf("v=");
      if (r) { puthex(r, strlen(r)); printf(" us=%d", (int) (malloc_usable_size(r) >= strlen(r) + 1)); } else printf("nil");
      printf("\n");
      free(r);
    } else {
      struct iwxstr *c = iwxstr_new_printf("%s:%d", (char*) b, v);
      printf("c"); if (c) xs_state(c); else printf(" nil");
      printf("\n");
      iwxstr_destroy(c);
    }
    free(b);
    return;
  }
  if (!xs) { printf("noxs\n"); return; }
  if (!strcmp(op, "cat") || !strcmp(op, "unshift")) {
    uint8_t *b; size_t l = unhexz(tv[2], &b);
    iwrc rc = op[0] == 'c' ? iwxstr_cat(xs, b, l) : iwxstr_unshift(xs, b, l);
    free(b);
    printf("rc=%s", rcs(rc)); xs_state(xs); printf("\n");
  } else if (!strcmp(op, "cat2")) {
    uint8_t *b; unhexz(tv[2], &b);
    iwrc rc = iwxstr_cat2(xs, (char*) b);
    free(b);
    printf("rc=%s", rcs(rc)); xs_state(xs); printf("\n");
  } else if (!strcmp(op, "shift") || !strcmp(op, "pop")) {
    size_t k = strtoul(tv[2], 0, 10);
    if (op[0] == 's') iwxstr_shift(xs, k); else iwxstr_pop(xs, k);
    printf("rc=0"); xs_state(xs); printf("\n");
  } else if (!strcmp(op, "insert")) {
    uint8_t *b; size_t l = unhexz(tv[3], &b);
    iwrc rc = iwxstr_insert(xs, strtoul(tv[2], 0, 10), b, l);
    free(b);
    printf("rc=%s", rcs(rc)); xs_state(xs); printf("\n");
  } else if (!strcmp(op, "printf") || !strcmp(op, "iprintf")) {
    // printf <hex s> <int>  /  iprintf <pos> <hex s> <int>   with the fixed format "%s:%d"
    int o = op[0] == 'i';
    uint8_t *b; unhexz(tv[2 + o], &b);
    int v = atoi(tv[3 + o]);
    iwrc rc = o ? iwxstr_insert_printf(xs, strtoul(tv[2], 0, 10), "%s:%d", (char*) b, v) : iwxstr_printf(xs, "%s:%d", (char*) b, v);
    free(b);
    printf("rc=%s", rcs(rc)); xs_state(xs); printf("\n");
  } else if (!strcmp(op, "clear")) {
    iwxstr_clear(xs);
    printf("rc=0"); xs_state(xs); printf("\n");
  } else if (!strcmp(op, "clone")) {
    struct iwxstr *c = iwxstr_clone(xs);
    printf("c"); xs_state(c); printf("\n");
    iwxstr_destroy(c);
  } else if (!strcmp(op, "wrap")) {
    // wrap <hex> <asize>: heap buffer of max(asize, 1) bytes holding the data (truncated to the buffer)
    uint8_t *b; size_t l = unhexz(tv[2], &b);
    size_t as = strtoul(tv[3], 0, 10);
    char *buf = malloc(as ? as : 1);
    if (l > as) l = as;
    memcpy(buf, b, l);
    free(b);
    struct iwxstr *c = iwxstr_wrap(buf, l, as);
    printf("c"); xs_state(c); printf("\n");
    iwxstr_destroy(c);
  } else if (!strcmp(op, "setsize")) {
    // setsize <n> <fill> <term>: iwxstr_set_size(n); when the string grows the caller writes what set_size exposes, through
    // iwxstr_ptr: bytes old .. n-1 = fill and the byte at n = term (set_size itself writes no terminator)
    size_t old = iwxstr_size(xs), k = strtoul(tv[2], 0, 10);
    iwrc rc = iwxstr_set_size(xs, k);
    if (!rc && k > old) { memset(iwxstr_ptr(xs) + old, atoi(tv[3]), k - old); iwxstr_ptr(xs)[k] = (char) atoi(tv[4]); }
    printf("rc=%s", rcs(rc)); xs_state(xs); printf("\n");
  } else if (!strcmp(op, "cat2null")) {
    iwrc rc = iwxstr_cat2(xs, 0);
    printf("rc=%s", rcs(rc)); xs_state(xs); printf("\n");
  } else if (!strcmp(op, "ud")) {
    // ud <tok> <fn>: iwxstr_user_data_set(token or NULL for 0, destructor or none)
    int tok = atoi(tv[2]), fn = atoi(tv[3]);
    int *d = 0;
    if (tok) { d = malloc(sizeof(*d)); *d = tok; if (!fn && xs_nown < 256) xs_own[xs_nown++] = d; }
    iwxstr_user_data_set(xs, d, fn ? xs_ud_free : 0);
    printf("ok"); xs_put_udlog(); printf("\n");
  } else if (!strcmp(op, "udget") || !strcmp(op, "uddetach")) {
    int *d = op[2] == 'g' ? iwxstr_user_data_get(xs) : iwxstr_user_data_detach(xs);
    printf("v=%d", d ? *d : 0); xs_put_udlog(); printf("\n");
    if (op[2] == 'd' && d && xs_nown < 256) {
      int have = 0;
      for (int i = 0; i < xs_nown; ++i) if (xs_own[i] == d) have = 1;
      if (!have) xs_own[xs_nown++] = d;
    }
  } else if (!strcmp(op, "keepptr")) {
    // iwxstr_destroy_keep_ptr: the buffer survives, the struct and the user data do not
    size_t sz = iwxstr_size(xs);
    char *p = iwxstr_destroy_keep_ptr(xs); xs = 0;
    printf("d v="); puthex(p, sz); printf(" z=%d", p[sz] == 0); xs_put_udlog(); printf("\n");
    free(p); xs_own_flush();
  } else if (!strcmp(op, "destroy")) {
    iwxstr_destroy(xs); xs = 0;
    printf("d"); xs_put_udlog(); printf("\n");
    xs_own_flush();
  } else {
    printf("?\n");
  }
}

// ------------------------------------------------------------------------------------------- AVL tree
struct avn { struct iwavl_node n; int key; };
static struct iwavl_node *av_root;
static size_t av_count;

static int av_cmp(const struct iwavl_node *a, const struct iwavl_node *b) {
  int x = iwavl_entry(a, struct avn, n)->key, y = iwavl_entry(b, struct avn, n)->key;
  return x < y ? -1 : x > y ? 1 : 0;
}

static int av_cmpk(const void *k, const struct iwavl_node *b) {
  int x = *(const int*) k, y = iwavl_entry(b, struct avn, n)->key;
  return x < y ? -1 : x > y ? 1 : 0;
}

static int av_pp; // parent pointers consistent

static void av_dump(const struct iwavl_node *nd, const struct iwavl_node *parent, int depth) {
  if (!nd) { printf("."); return; }
  if (depth > 64) { printf("!"); return; }
  if (iwavl_get_parent(nd) != parent) av_pp = 0;
  printf("(%d %d ", iwavl_entry(nd, struct avn, n)->key, (int) (nd->parent_balance & 3) - 1);
  av_dump(nd->left, nd, depth + 1);
  printf(" ");
  av_dump(nd->right, nd, depth + 1);
  printf(")");
}

static void av_free(void) {
  struct avn *e;
  iwavl_for_each_in_postorder(e, av_root, struct avn, n) free(e);
  av_root = 0; av_count = 0;
}

static void av_state(void) {
  av_pp = 1;
  printf(" n=%zu t=", av_count);
  av_dump(av_root, 0, 0);
  printf(" pp=%d io=", av_pp);
  int c = 0;
  size_t lim = av_count + 3;
  for (struct iwavl_node *x = iwavl_first_in_order(av_root); x && lim; x = iwavl_next_in_order(x), --lim)
    printf("%s%d", c++ ? "," : "", iwavl_entry(x, struct avn, n)->key);
  if (!c) printf("-");
  printf(" ro=");
  c = 0; lim = av_count + 3;
  for (struct iwavl_node *x = iwavl_last_in_order(av_root); x && lim; x = iwavl_prev_in_order(x), --lim)
    printf("%s%d", c++ ? "," : "", iwavl_entry(x, struct avn, n)->key);
  if (!c) printf("-");
}

// postorder key sequence through iwavl_for_each_in_postorder (first_in_postorder / next_in_postorder with the saved parent)
static void av_post(void) {
  struct avn *e;
  int c = 0;
  size_t lim = av_count + 3;
  printf(" po=");
  iwavl_for_each_in_postorder(e, av_root, struct avn, n) {
    if (!lim--) { printf("~"); break; }
    printf("%s%d", c++ ? "," : "", e->key);
  }
  if (!c) printf("-");
}

static void av_line(int n, char **tv) {
  const char *op = tv[1];
  if (!strcmp(op, "new")) {
    av_free();
    printf("ok\n");
    return;
  }
  int k = n > 2 ? atoi(tv[2]) : 0;
  if (!strcmp(op, "ins")) {
    struct avn *e = malloc(sizeof(*e));
    e->key = k;
    struct iwavl_node *ex = iwavl_insert(&av_root, &e->n, av_cmp);
    if (ex) free(e); else ++av_count;
    printf("r=%d", ex != 0); av_state(); printf("\n");
  } else if (!strcmp(op, "rm")) {
    struct iwavl_node *x = iwavl_lookup(av_root, &k, av_cmpk);
    if (x) { iwavl_remove(&av_root, x); free(iwavl_entry(x, struct avn, n)); --av_count; }
    printf("r=%d", x != 0); av_state(); printf("\n");
  } else if (!strcmp(op, "find")) {
    struct iwavl_node *x = iwavl_lookup(av_root, &k, av_cmpk);
    const struct iwavl_node *lb, *ub;
    iwavl_lookup_bounds(av_root, &k, av_cmpk, &lb, &ub);
    printf("r=%d lb=", x != 0);
    if (lb) printf("%d", iwavl_entry(lb, struct avn, n)->key); else printf("nil");
    printf(" ub=");
    if (ub) printf("%d", iwavl_entry(ub, struct avn, n)->key); else printf("nil");
    printf("\n");
  } else if (!strcmp(op, "post")) {
    // the macros iwavl_for_each_in_order / in_reverse_order / in_postorder
    struct avn *e;
    int c = 0;
    size_t lim = av_count + 3;
    printf("io=");
    iwavl_for_each_in_order(e, av_root, struct avn, n) { if (!lim--) { printf("~"); break; } printf("%s%d", c++ ? "," : "", e->key); }
    if (!c) printf("-");
    c = 0; lim = av_count + 3;
    printf(" ro=");
    iwavl_for_each_in_reverse_order(e, av_root, struct avn, n) { if (!lim--) { printf("~"); break; } printf("%s%d", c++ ? "," : "", e->key); }
    if (!c) printf("-");
    av_post(); printf("\n");
  } else if (!strcmp(op, "lookn")) {
    // iwavl_lookup_node (comparison node against node) + the unlinked mark of a node that is in no tree
    struct avn probe;
    probe.key = k;
    iwavl_node_set_unlinked(&probe.n);
    int u1 = iwavl_node_is_unlinked(&probe.n);
    struct iwavl_node *x = iwavl_lookup_node(av_root, &probe.n, av_cmp);
    printf("r=%d unl=%d,%d par=", x != 0, u1, x ? (int) iwavl_node_is_unlinked(x) : 0);
    if (x && iwavl_get_parent(x)) printf("%d", iwavl_entry(iwavl_get_parent(x), struct avn, n)->key); else printf("nil");
    printf("\n");
  } else if (!strcmp(op, "destroy")) {
    // the postorder walk frees every node: print the order first
    printf("d"); av_post(); printf("\n");
    av_free();
  } else {
    printf("?\n");
  }
}

// ------------------------------------------------------------------------------------------- memory pool
#define PO_MAXCH 8
static struct iwpool *po, *po_ch[PO_MAXCH];
static int po_nch;
static int po_udfree; // user-data free callback calls

static void po_ud_free(void *p) {
  ++po_udfree;
  free(p);
}

// where does p live: unit index counted from the oldest unit, offset inside it
static void po_where(struct iwpool *pool, const void *p, size_t siz) {
  int nu = 0;
  for (struct iwpool_unit *u = pool->unit; u; u = u->next) ++nu;
  int idx = nu;
  for (struct iwpool_unit *u = pool->unit; u; u = u->next) {
    --idx;
    size_t us = malloc_usable_size(u->heap);
    if ((const char*) p >= (const char*) u->heap && (const char*) p <= (const char*) u->heap + us) {
      printf(" unit=%d off=%zu in=%d al=%d", idx, (size_t) ((const char*) p - (const char*) u->heap),
             (const char*) p + siz <= (const char*) u->heap + us, (int) ((uintptr_t) p % 8 == 0));
      return;
    }
  }
  printf(" unit=-1");
}

static void po_state(struct iwpool *pool) {
  int nu = 0;
  for (struct iwpool_unit *u = pool->unit; u; u = u->next) ++nu;
  printf(" us=%zu as=%zu units=%d", iwpool_used_size(pool), iwpool_allocated_size(pool), nu);
}

// iwpool_printf_va behind a variadic wrapper
static char* po_printf_va(struct iwpool *pool, const char *fmt, ...) {
  va_list ap;
  va_start(ap, fmt);
  char *r = iwpool_printf_va(pool, fmt, ap);
  va_end(ap);
  return r;
}

static void po_line(int n, char **tv) {
  const char *op = tv[1];
  if (!strcmp(op, "new") || !strcmp(op, "newempty")) {
    if (po) {
      for (int i = 0; i < po_nch; ++i) po_ch[i] = 0;
      iwpool_destroy(po);
    }
    po_nch = 0; po_udfree = 0;
    pq_flush();
    po = op[3] ? iwpool_create_empty() : iwpool_create(strtoul(tv[2], 0, 10));
    printf("ok"); po_state(po); printf("\n");
    return;
  }
  if (!po) { printf("nopo\n"); return; }
  if (!strcmp(op, "alloc") || !strcmp(op, "calloc")) {
    size_t sz = strtoul(tv[2], 0, 10);
    char *p = op[0] == 'a' ? iwpool_alloc(sz, po) : iwpool_calloc(sz, po);
    int zero = 1;
    if (p && op[0] == 'c') for (size_t i = 0; i < sz; ++i) if (p[i]) zero = 0;
    if (p) memset(p, 0x5a, sz);
    printf("p=%d z=%d", p != 0, zero); po_where(po, p, sz); po_state(po); printf("\n");
  } else if (!strcmp(op, "strdup")) {
    uint8_t *b; size_t l = unhexz(tv[2], &b);
    iwrc rc;
    char *p = iwpool_strndup(po, (char*) b, l, &rc);
    printf("rc=%s v=", rcs(rc));
    if (p) puthex(p, strlen(p)); else printf("nil");
    po_where(po, p, l + 1); po_state(po); printf("\n");
    free(b);
  } else if (!strcmp(op, "allocbig") || !strcmp(op, "callocbig") || !strcmp(op, "strndupbig")) {
    // requests near SIZE_MAX (decimal size_t): nothing is written by the harness; where the pointer lies is reported with size 0
    size_t sz = (size_t) strtoull(tv[2], 0, 10);
    iwrc rc = 0;
    void *p = op[0] == 'a' ? iwpool_alloc(sz, po) : op[0] == 'c' ? iwpool_calloc(sz, po) : (void*) iwpool_strndup(po, "x", sz, &rc);
    printf("p=%d", p != 0); po_where(po, p, 0); po_state(po); printf("\n");
  } else if (!strcmp(op, "strdupx")) {
    // strdupx <k> <hex>: k = 0 iwpool_strndup2, 1 iwpool_strdup, 2 iwpool_strdup2
    uint8_t *b; size_t l = unhexz(tv[3], &b);
    int k = atoi(tv[2]);
    iwrc rc = 0;
    char *p = k == 0 ? iwpool_strndup2(po, (char*) b, l) : k == 1 ? iwpool_strdup(po, (char*) b, &rc) : iwpool_strdup2(po, (char*) b);
    printf("rc=%s v=", rcs(rc));
    if (p) puthex(p, strlen(p)); else printf("nil");
    po_where(po, p, strlen((char*) b) + 1); po_state(po); printf("\n");
    free(b);
  } else if (!strcmp(op, "psplit")) {
    // psplit <hex s> <int> <hex split chars> <ignore_ws>: iwpool_printf_split with the format "%s:%d"
    uint8_t *b, *sc; unhexz(tv[2], &b); unhexz(tv[4], &sc);
    const char **r = iwpool_printf_split(po, (char*) sc, atoi(tv[5]) != 0, "%s:%d", (char*) b, atoi(tv[3]));
    printf("v=");
    int c = 0;
    for (const char **x = r; x && *x && c < 1000; ++x) { printf("%s", c++ ? "." : ""); puthex(*x, strlen(*x)); }
    if (!c) printf("none");
    po_state(po); printf("\n");
    free(b); free(sc);
  } else if (!strcmp(op, "printf") || !strcmp(op, "printfva")) {
    uint8_t *b; unhexz(tv[2], &b);
    char *p = op[6] ? po_printf_va(po, "%s:%d", (char*) b, atoi(tv[3])) : iwpool_printf(po, "%s:%d", (char*) b, atoi(tv[3]));
    printf("v=");
    if (p) puthex(p, strlen(p)); else printf("nil");
    po_state(po); printf("\n");
    free(b);
  } else if (!strcmp(op, "split")) {
    // split <hex haystack> <hex split chars> <ignore_ws>; both strings live in exact-size heap blocks
    uint8_t *h, *sc; size_t hl = unhexz(tv[2], &h); unhexz(tv[3], &sc);
    char *hay = malloc(hl + 1);
    memcpy(hay, h, hl + 1);
    const char **r = iwpool_split_string(po, hay, (char*) sc, atoi(tv[4]) != 0);
    printf("v=");
    int c = 0;
    for (const char **x = r; x && *x && c < 1000; ++x) { printf("%s", c++ ? "." : ""); puthex(*x, strlen(*x)); }
    if (!c) printf("none");
    po_state(po); printf("\n");
    free(hay); free(h); free(sc);
  } else if (!strcmp(op, "cstrarr")) {
    // cstrarr <hex>.<hex>...  copy of a NULL-terminated array of C strings
    const char *v[66];
    uint8_t *bufs[66];
    int c = 0;
    char *sp = 0;
    if (strcmp(tv[2], "none")) for (char *t = strtok_r(tv[2], ".", &sp); t && c < 64; t = strtok_r(0, ".", &sp)) { unhexz(t, &bufs[c]); v[c] = (char*) bufs[c]; ++c; }
    v[c] = 0;
    const char **r = iwpool_copy_cstring_array(v, po);
    printf("v=");
    if (!r) printf("null");
    else {
      for (int i = 0; i < c; ++i) { printf("%s", i ? "." : ""); if (r[i]) puthex(r[i], strlen(r[i])); else printf("nil"); }
      printf(" term=%d", r[c] == 0);
    }
    po_state(po); printf("\n");
    for (int i = 0; i < c; ++i) free(bufs[i]);
  } else if (!strcmp(op, "child")) {
    if (po_nch >= PO_MAXCH) { printf("full\n"); return; }
    struct iwpool *c = atoi(tv[2]) ? iwpool_create_attach(po, strtoul(tv[2], 0, 10)) : iwpool_create_empty_attach(po);
    void *p = iwpool_alloc(24, c);
    po_ch[po_nch++] = c;
    printf("c=%d p=%d\n", po_nch - 1, p != 0);
  } else if (!strcmp(op, "dchild")) {
    int i = atoi(tv[2]);
    if (i < 0 || i >= po_nch || !po_ch[i]) { printf("nochild\n"); return; }
    bool r = iwpool_destroy(po_ch[i]);
    po_ch[i] = 0;
    // children still reachable from the parent
    int c = 0;
    for (struct iwpool *x = po->children; x && c < 100; x = x->next) ++c;
    printf("r=%d linked=%d\n", (int) r, c);
  } else if (!strcmp(op, "ref")) {
    printf("refs=%d\n", iwpool_ref(po));
  } else if (!strcmp(op, "udata")) {
    iwpool_user_data_set(po, malloc(8), po_ud_free);
    printf("udf=%d\n", po_udfree);
  } else if (!strcmp(op, "destroy")) {
    bool r = iwpool_destroy(po);
    if (r) { po = 0; for (int i = 0; i < po_nch; ++i) po_ch[i] = 0; po_nch = 0; }
    printf("r=%d udf=%d\n", (int) r, po_udfree);
  } else {
    printf("?\n");
  }
}

// ------------------------------------------------------------------------------------------- pool forest
// pf reset | new <siz|e> | attach <parent|nil> <siz|e> | ref <id> | destroy <id|nil> | freefn <id> | alloc <id> <n> |
// put <id> <hex> | chk <id> | ud <id> <tok|0> <fn> | udget <id> | uddetach <id> | drain | end
// Every answer (except reset/end) ends with the releases the call caused, in the order of the free() calls
//   ev=b<k> (k anonymous blocks: unit heaps + unit headers), d<tok> (user data destructor), f<id> (free(pool)), DF (double free)
// and with the white-box state of every live pool: id:numrefs:parent:child chain:next:usiz:asiz:units:user data:has free fn
// ("!" = a pointer that is not a live pool).
#define PF_MAX 1024
struct pftok { int tok; int freed; struct pftok *nx; };
static struct pfe { struct iwpool *p; int live; char **strs; size_t *lens; int nstr; } pf[PF_MAX];
static int pf_n;
static struct pftok *pf_toks;
static char pf_ev[1 << 14];
static size_t pf_evl;
static int pf_anon;

static void pf_ev_add(const char *fmt, int v) {
  if (pf_evl + 24 < sizeof(pf_ev)) {
    if (pf_evl) pf_ev[pf_evl++] = ',';
    pf_evl += snprintf(pf_ev + pf_evl, sizeof(pf_ev) - pf_evl, fmt, v);
  }
}

static void pf_ev_anon(void) {
  if (pf_anon) { int k = pf_anon; pf_anon = 0; pf_ev_add("b%d", k); }
}

#define PQ_MAX (1 << 16)
static struct { unsigned char *p; size_t n; } pq[PQ_MAX];
static int pq_n;

// scan (and with `release` hand back) the quarantined blocks; returns the number of blocks written to after free
static int pq_scan(int release) {
  int dirty = 0;
  for (int i = 0; i < pq_n; ++i) {
    for (size_t j = 0; j < pq[i].n; ++j) if (pq[i].p[j] != 0xDD) { ++dirty; break; }
    if (release) free(pq[i].p);
  }
  if (release) pq_n = 0;
  return dirty;
}

static void pq_flush(void) {
  if (pq_scan(1)) {
    fflush(stdout);
    fprintf(stderr, "harness: memory released by iwpool.c was written to after free()\n");
    abort();
  }
}

static void po_free_hook(void *p) {
  if (!p) return;
  int id = -1;
  for (int i = 0; i < pf_n; ++i) if (pf[i].live && pf[i].p == p) { id = i; break; }
  if (id >= 0) { pf_ev_anon(); pf_ev_add("f%d", id); pf[id].live = 0; } else ++pf_anon;
#ifdef __SANITIZE_ADDRESS__
  free(p);
#else
  for (int i = 0; i < pq_n; ++i) if (pq[i].p == p) { pf_ev_anon(); pf_ev_add("DF%d", 0); return; }
  if (pq_n == PQ_MAX) pq_flush();
  size_t n = malloc_usable_size(p);
  memset(p, 0xDD, n);
  pq[pq_n].p = p; pq[pq_n].n = n; ++pq_n;
#endif
}

static void pf_ud_free(void *d) {
  struct pftok *t = d;
  pf_ev_anon();
  if (!t) pf_ev_add("d%d", 0);
  else { pf_ev_add(t->freed ? "d%d!!" : "d%d", t->tok); t->freed = 1; }
}

static int pf_id_of(const struct iwpool *p) {
  for (int i = 0; i < pf_n; ++i) if (pf[i].live && pf[i].p == p) return i;
  return -1;
}

static void pf_ptr(const struct iwpool *p) {
  int id = p ? pf_id_of(p) : -1;
  if (!p) printf("-"); else if (id < 0) printf("!"); else printf("%d", id);
}

static void pf_tail(void) {
  pf_ev_anon();
  printf(" ev=%s |", pf_evl ? pf_ev : "-");
  for (int i = 0; i < pf_n; ++i) {
    if (!pf[i].live) continue;
    struct iwpool *p = pf[i].p;
    printf(" %d:%d:", i, p->numrefs);
    pf_ptr(p->parent);
    printf(":");
    if (!p->children) printf("-");
    int n = 0;
    for (struct iwpool *c = p->children; c; c = c->next, ++n) {
      if (n) printf(",");
      if (n > 600) { printf("~"); break; }
      int id = pf_id_of(c);
      if (id < 0) { printf("!"); break; }
      printf("%d", id);
    }
    printf(":");
    pf_ptr(p->next);
    int nu = 0;
    for (struct iwpool_unit *u = p->unit; u; u = u->next) ++nu;
    printf(":%zu:%zu:%d:%d:%d", p->usiz, p->asiz, nu, p->user_data ? ((struct pftok*) p->user_data)->tok : 0,
           p->user_data_free_fn != 0);
  }
  printf("\n");
}

// drop every reference: pools in the order of creation; a live pool without parent is destroyed numrefs times
static void pf_drain(void) {
  for (int i = 0; i < pf_n; ++i) {
    if (!pf[i].live || pf[i].p->parent) continue;
    for (int n = pf[i].p->numrefs; n > 0 && pf[i].live; --n) iwpool_destroy(pf[i].p);
  }
}

static void pf_cleanup(void) {
  for (int guard = 0; guard < 4; ++guard) pf_drain();
  for (int i = 0; i < pf_n; ++i) {
    free(pf[i].strs); free(pf[i].lens);
    memset(&pf[i], 0, sizeof(pf[i]));
  }
  pf_n = 0;
  for (struct pftok *t = pf_toks, *nx; t; t = nx) { nx = t->nx; free(t); }
  pf_toks = 0;
  pf_evl = 0; pf_ev[0] = 0; pf_anon = 0;
}

static struct iwpool* pf_arg(const char *s, int *idp) {
  int i = atoi(s);
  *idp = i;
  return (i >= 0 && i < pf_n && pf[i].live) ? pf[i].p : 0;
}

static void pf_line(int n, char **tv) {
  const char *op = tv[1];
  pf_evl = 0; pf_ev[0] = 0; pf_anon = 0;
  if (!strcmp(op, "reset")) {
    pf_cleanup();
    pq_flush();
    printf("ok\n");
    return;
  }
  if (!strcmp(op, "end")) {
    int live = 0;
    for (int i = 0; i < pf_n; ++i) live += pf[i].live;
    printf("live=%d dirty=%d\n", live, pq_scan(0));
    fflush(stdout);
    pf_cleanup();
    pq_scan(1);
    return;
  }
  if (!strcmp(op, "drain")) {
    pf_drain();
    printf("ok"); pf_tail();
    return;
  }
  if (!strcmp(op, "new") || !strcmp(op, "attach")) {
    int at = op[0] == 'a', q = -1;
    const char *siz = tv[at ? 3 : 2];
    struct iwpool *parent = 0;
    if (at && strcmp(tv[2], "nil")) {
      parent = pf_arg(tv[2], &q);
      if (!parent) { printf("dead\n"); return; }
    }
    if (pf_n >= PF_MAX) { printf("full\n"); return; }
    struct iwpool *r;
    if (!strcmp(siz, "e")) r = at ? iwpool_create_empty_attach(parent) : iwpool_create_empty();
    else r = at ? iwpool_create_attach(parent, strtoul(siz, 0, 10)) : iwpool_create(strtoul(siz, 0, 10));
    if (!r) { printf("oom\n"); return; }
    pf[pf_n].p = r; pf[pf_n].live = 1;
    printf("id=%d", pf_n++); pf_tail();
    return;
  }
  if (!strcmp(op, "destroy") && !strcmp(tv[2], "nil")) {
    printf("r=%d", (int) iwpool_destroy(0)); pf_tail();
    return;
  }
  int id;
  struct iwpool *p = n > 2 ? pf_arg(tv[2], &id) : 0;
  if (!p) { printf("dead\n"); return; }
  if (!strcmp(op, "ref")) {
    printf("refs=%d", iwpool_ref(p));
  } else if (!strcmp(op, "destroy")) {
    printf("r=%d", (int) iwpool_destroy(p));
  } else if (!strcmp(op, "freefn")) {
    iwpool_free_fn(p);
    printf("r=-");
  } else if (!strcmp(op, "alloc")) {
    size_t sz = strtoul(tv[3], 0, 10);
    char *m = iwpool_alloc(sz, p);
    if (m) memset(m, 0x40 + (id & 31), sz);
    printf("p=%d", m != 0); po_where(p, m, sz);
  } else if (!strcmp(op, "put")) {
    uint8_t *b; size_t l = unhexz(tv[3], &b);
    // the four exported duplicators in turn
    iwrc rc = 0;
    struct pfe *e = &pf[id];
    int k = strlen((char*) b) == l ? (e->nstr & 3) : (e->nstr & 1);
    char *m = k == 0 ? iwpool_strndup(p, (char*) b, l, &rc) : k == 1 ? iwpool_strndup2(p, (char*) b, l)
              : k == 2 ? iwpool_strdup(p, (char*) b, &rc) : iwpool_strdup2(p, (char*) b);
    e->strs = realloc(e->strs, (e->nstr + 1) * sizeof(char*));
    e->lens = realloc(e->lens, (e->nstr + 1) * sizeof(size_t));
    e->strs[e->nstr] = m; e->lens[e->nstr] = l; ++e->nstr;
    printf("v=");
    if (m && !rc) puthex(m, l); else printf("nil");
    po_where(p, m, l + 1);
    free(b);
  } else if (!strcmp(op, "chk")) {
    struct pfe *e = &pf[id];
    uint32_t c = 0xffffffffu;
    int term = 1;
    for (int j = 0; j < e->nstr; ++j) {
      if (!e->strs[j]) { term = 0; continue; }
      c = crc_upd(c, e->strs[j], e->lens[j]);
      if (e->strs[j][e->lens[j]]) term = 0;
    }
    printf("n=%d t=%d crc=%08x", e->nstr, term, c ^ 0xffffffffu);
  } else if (!strcmp(op, "ud")) {
    int tok = atoi(tv[3]);
    struct pftok *t = 0;
    if (tok) { t = calloc(1, sizeof(*t)); t->tok = tok; t->nx = pf_toks; pf_toks = t; }
    iwpool_user_data_set(p, t, atoi(tv[4]) ? pf_ud_free : 0);
    printf("ok");
  } else if (!strcmp(op, "udget") || !strcmp(op, "uddetach")) {
    struct pftok *t = op[2] == 'g' ? iwpool_user_data_get(p) : iwpool_user_data_detach(p);
    printf("ud=%d", t ? t->tok : 0);
  } else {
    printf("?\n");
    return;
  }
  pf_tail();
}

int main(void) {
  static char line[1 << 20];
  char *tv[12];
  // fresh allocations are filled with 0xAA, freed memory with 0x55 (glibc): reads of uninitialised or stale memory
  // give the same bytes on every run
  mallopt(M_PERTURB, 0x55);
  setvbuf(stdout, 0, _IOLBF, 0);
  while (fgets(line, sizeof(line), stdin)) {
    int n = toks(line, tv, 12);
    if (n < 2) { printf("\n"); continue; }
    if (!strcmp(tv[0], "hm")) hm_line(n, tv);
    else if (!strcmp(tv[0], "ul")) ul_line(n, tv);
    else if (!strcmp(tv[0], "pl")) pl_line(n, tv);
    else if (!strcmp(tv[0], "sa")) sa_line(n, tv);
    else if (!strcmp(tv[0], "rb")) rb_line(n, tv);
    else if (!strcmp(tv[0], "xs")) xs_line(n, tv);
    else if (!strcmp(tv[0], "av")) av_line(n, tv);
    else if (!strcmp(tv[0], "po")) po_line(n, tv);
    else if (!strcmp(tv[0], "pf")) pf_line(n, tv);
    else printf("?\n");
  }
  if (hm) iwhmap_destroy(hm);
  ul_drop();
  pl_drop();
  free(sa);
  if (rb) iwrb_destroy(&rb);
  if (xs) iwxstr_destroy(xs);
  xs_own_flush();
  av_free();
  if (po) iwpool_destroy(po);
  pf_cleanup();
  pq_flush();
  return 0;
}
