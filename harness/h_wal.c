// C04/C05/C08 harness: runs op histories against a WAL-enabled store in a child process that dies
// (_exit) without closing - optionally at the i-th file effect -, reopens (recovery) and dumps.
// Line protocol (one output line per input line):
//   run <dir> <crc> <fresh> <killat> <tracefx> <op>...   child runs the history; trace in <dir>/trace
//   rec <dir> <crc> <killat>                             child reopens <dir>/db (recovery), dumps, _exit
//   wal <dir> <crc>                                      child calls iwal_create only (recovery step alone)
// <crc> = option flags of THAT session (mkopts: 1 checksum checking, 2 4 KB log buffer, 4 no trim on close); the flags of a
// rec/wal/continuation session need not be the writer's: the checks also recover with the other buffer size / checksum setting
// ops: p<db>:<keyhex>:<vlen>:<seed>  d<db>:<keyhex>  s (iwkv_sync)  c (checkpoint)  n<db> (create db)  q (close, exit)
//      Q<k> (close whose k-th log write fails with EFBIG, exit)  x<db> (iwkv_db_destroy)
//      b (online backup into <dir>/bkp)
// Effects are numbered through the iwverif_fx hook when /repo has it (IOWOW_VERIF_FX_HOOK), otherwise
// through -Wl,--wrap of the libc calls (HWAL_WRAP), otherwise not at all (op-boundary kills only).
#include "iwkv_internal.h"
#include "iwal.h"
#include "iwp.h"
#include "hcommon.h"
#include <unistd.h>
#include <stdarg.h>
#include <fcntl.h>
#include <errno.h>
#include <sys/wait.h>
#include <sys/stat.h>
#include <sys/mman.h>
#include <sys/resource.h>
#include <signal.h>
#include <pthread.h>
#include <semaphore.h>
#include <time.h>

iwrc iwal_test_checkpoint(struct iwkv *iwkv);

#define FX_WRITE     1
#define FX_PWRITE    2
#define FX_FTRUNCATE 3
#define FX_FALLOCATE 4
#define FX_FSYNC     5
#define FX_FDATASYNC 6
#define FX_MSYNC     7
#define FX_WALREC    8

#ifdef HWAL_WRAP
ssize_t __real_write(int fd, const void *buf, size_t n);
#define RAW_WRITE __real_write
#else
#define RAW_WRITE write
#endif

static int g_trace_fd = -1;
static long long g_fx_n = 0, g_killat = -1;
static int g_fx_on = 0, g_trace_fx = 0;
static char g_dbpath[600], g_walpath[600];
static unsigned long long g_rec_hash = 14695981039346656037ULL;
static long long g_rec_n = 0;

static void tr(const char *fmt, ...) {
  char b[1 << 16];
  va_list ap;
  va_start(ap, fmt);
  int n = vsnprintf(b, sizeof(b), fmt, ap);
  va_end(ap);
  if (n > (int) sizeof(b) - 1) n = sizeof(b) - 1;
  if (g_trace_fd >= 0) { ssize_t r = RAW_WRITE(g_trace_fd, b, n); (void) r; }
}

static char fdclass(int fd) {
  static char cache[256];
  if (fd < 0 || fd >= 256) return 'O';
  char p[64], t[700];
  snprintf(p, sizeof(p), "/proc/self/fd/%d", fd);
  ssize_t n = readlink(p, t, sizeof(t) - 1);
  if (n <= 0) return 'O';
  t[n] = 0;
  if (!strcmp(t, g_walpath)) cache[fd] = 'W';
  else if (!strcmp(t, g_dbpath)) cache[fd] = 'M';
  else cache[fd] = 'O';
  return cache[fd];
}

static void bkp_write_seen(int fd);
// fault injection on the backup target (op F<k>): at its k-th write RLIMIT_FSIZE is lowered to the target's current
// size, so exactly that write fails with EFBIG; the limit is restored at the next file effect of the process
static int g_fail_at, g_fail_armed;
static struct rlimit g_rl_saved;
static void fail_restore(void) {
  if (g_fail_armed) { setrlimit(RLIMIT_FSIZE, &g_rl_saved); g_fail_armed = 0; }
}
// op Q<k>: iwkv_close whose k-th write to the log file fails (disk full); same mechanism
static int g_qfail_at, g_qfail_cnt;
static void fx(int kind, int fd, long long off, long long len) {
  fail_restore();
  if (g_qfail_at && kind == FX_WRITE && fdclass(fd) == 'W' && ++g_qfail_cnt == g_qfail_at) {
    struct stat st;
    if (!fstat(fd, &st)) {
      struct rlimit rl;
      getrlimit(RLIMIT_FSIZE, &g_rl_saved);
      rl = g_rl_saved;
      rl.rlim_cur = (rlim_t) st.st_size;
      signal(SIGXFSZ, SIG_IGN);
      tr("G qfail %d %lld\n", g_qfail_cnt, (long long) st.st_size);
      if (!setrlimit(RLIMIT_FSIZE, &rl)) g_fail_armed = 1;
    }
  }
  if (kind == FX_WALREC) {
    long long v[3] = { fd, off, len };
    for (int i = 0; i < 3; ++i) for (int k = 0; k < 8; ++k) {
        g_rec_hash ^= (unsigned long long) ((v[i] >> (8 * k)) & 0xff);
        g_rec_hash *= 1099511628211ULL;
      }
    g_rec_n++;
  }
  if (!g_fx_on) return;
  char c = kind == FX_WALREC ? 'R' : kind == FX_MSYNC ? 'M' : fdclass(fd);
  if (c == 'O') { // trace file, backup target etc. are not effects on the store
    if (kind == FX_WRITE && fd != g_trace_fd) bkp_write_seen(fd);
    return;
  }
  if (g_trace_fx) tr("F %lld %d %c %lld %lld\n", g_fx_n, kind, c, off, len);
  if (g_fx_n == g_killat) _exit(0);
  g_fx_n++;
}

#ifdef HWAL_WRAP
ssize_t __real_pwrite64(int fd, const void *buf, size_t n, off_t off);
ssize_t __real_pwrite(int fd, const void *buf, size_t n, off_t off);
int __real_ftruncate64(int fd, off_t len);
int __real_ftruncate(int fd, off_t len);
int __real_fsync(int fd);
int __real_fdatasync(int fd);
int __real_msync(void *a, size_t l, int f);
ssize_t __wrap_write(int fd, const void *buf, size_t n) { fx(FX_WRITE, fd, -1, n); return __real_write(fd, buf, n); }
ssize_t __wrap_pwrite64(int fd, const void *buf, size_t n, off_t off) { fx(FX_PWRITE, fd, off, n); return __real_pwrite64(fd, buf, n, off); }
ssize_t __wrap_pwrite(int fd, const void *buf, size_t n, off_t off) { fx(FX_PWRITE, fd, off, n); return __real_pwrite(fd, buf, n, off); }
int __wrap_ftruncate64(int fd, off_t len) { fx(FX_FTRUNCATE, fd, len, 0); return __real_ftruncate64(fd, len); }
int __wrap_ftruncate(int fd, off_t len) { fx(FX_FTRUNCATE, fd, len, 0); return __real_ftruncate(fd, len); }
int __wrap_fsync(int fd) { fx(FX_FSYNC, fd, 0, 0); return __real_fsync(fd); }
int __wrap_fdatasync(int fd) { fx(FX_FDATASYNC, fd, 0, 0); return __real_fdatasync(fd); }
int __wrap_msync(void *a, size_t l, int f) { fx(FX_MSYNC, -1, 0, l); return __real_msync(a, l, f); }
#endif

static void fx_install(void) {
#ifdef IOWOW_VERIF_FX_HOOK
  iwverif_fx = fx;
#endif
}

static uint32_t zcrc(const uint8_t *p, size_t n) { // standard (zlib) CRC-32, independent of iwu_crc32
  uint32_t c = 0xffffffffu;
  for (size_t i = 0; i < n; ++i) {
    c ^= p[i];
    for (int k = 0; k < 8; ++k) c = (c >> 1) ^ (0xedb88320u & (-(c & 1)));
  }
  return ~c;
}

static void genval(uint8_t *b, size_t len, unsigned seed) {
  for (size_t i = 0; i < len; ++i) b[i] = (uint8_t) (seed * 31u + i * 7u + (i >> 8) * 13u);
}

static const char* rcs(iwrc rc) {
  static char b[32];
  iwrc_strip_errno(&rc);
  if (!rc) return "0";
  if (rc == IWKV_ERROR_NOTFOUND) return "NF";
  if (rc == IWKV_ERROR_CORRUPTED_WAL_FILE) return "CORRUPTED_WAL";
  if (rc == IWKV_ERROR_CORRUPTED) return "CORRUPTED";
  if (rc == IWKV_ERROR_BACKUP_IN_PROGRESS) return "BKP_IN_PROGRESS";
  snprintf(b, sizeof(b), "E%llu", (unsigned long long) rc);
  return b;
}

// dump of all records of dbs 1..4 in cursor order: db<id>{k=v,...}
static size_t dump(struct iwkv *kv, char *out, size_t cap) {
  size_t o = 0;
#define PUT(...) do { if (o < cap) o += snprintf(out + o, cap - o, __VA_ARGS__); } while (0)
  for (uint32_t id = 1; id <= 4; ++id) {
    if (!iwhmap_get_u32(kv->dbs, id)) continue;
    struct iwdb *db = 0;
    iwrc rc = iwkv_db(kv, id, 0, &db);
    if (rc) { PUT("db%u!%s;", id, rcs(rc)); continue; }
    PUT("db%u{", id);
    struct iwkv_cursor *cur = 0;
    rc = iwkv_cursor_open(db, &cur, IWKV_CURSOR_BEFORE_FIRST, 0);
    if (rc) { PUT("!open:%s}", rcs(rc)); continue; }
    int cnt = 0;
    while (!(rc = iwkv_cursor_to(cur, IWKV_CURSOR_NEXT))) {
      struct iwkv_val k = { 0 }, v = { 0 };
      rc = iwkv_cursor_get(cur, &k, &v);
      if (rc) { PUT("!get:%s", rcs(rc)); break; }
      if (cnt++) PUT(",");
      for (size_t i = 0; i < k.size; ++i) PUT("%02x", ((uint8_t*) k.data)[i]);
      PUT("=");
      if (v.size <= 32) {
        if (!v.size) PUT("-");
        for (size_t i = 0; i < v.size; ++i) PUT("%02x", ((uint8_t*) v.data)[i]);
      } else {
        PUT("L%zuC%08x", v.size, zcrc(v.data, v.size));
      }
      iwkv_kv_dispose(&k, &v);
      if (cnt > 100000) { PUT("!loop"); break; }
    }
    if (rc && rc != IWKV_ERROR_NOTFOUND) PUT("!to:%s", rcs(rc));
    iwkv_cursor_close(&cur);
    PUT("}");
  }
  if (o == 0) PUT("empty");
#undef PUT
  return o;
}

static long long fsize(const char *p) {
  struct stat st;
  return stat(p, &st) ? -1 : (long long) st.st_size;
}

static void setpaths(const char *dir) {
  char rp[512];
  if (!realpath(dir, rp)) snprintf(rp, sizeof(rp), "%s", dir);
  snprintf(g_dbpath, sizeof(g_dbpath), "%s/db", rp);
  snprintf(g_walpath, sizeof(g_walpath), "%s/db-wal", rp);
}

static iwrc lock_tap(bool before, void *op);
static struct iwkv_opts mkopts(int crc, int fresh) {
  struct iwkv_opts o = {
    .path = g_dbpath,
    .oflags = (fresh ? IWKV_TRUNC : 0) | ((crc & 4) ? IWKV_NO_TRIM_ON_CLOSE : 0),   // crc: 1 checksums, 2 small buffer, 4 no trim
    .random_seed = 1,
    .wal = {
      .enabled = true,
      .check_crc_on_checkpoint = (crc & 1) != 0,
      .savepoint_timeout_sec = UINT32_MAX,   // timers off: effects are a function of the history
      .checkpoint_timeout_sec = UINT32_MAX,
      .wal_buffer_sz = (crc & 2) ? 4096 : 0,
      .checkpoint_buffer_sz = 0,
      .wal_lock_interceptor = lock_tap
    }
  };
  return o;
}

// ---- listener tap (flags & 4): every call the store makes to the WAL listener is traced, then forwarded
static IWDLSNR g_orig;
static void trhex(const char *pfx, const uint8_t *b, size_t n) {
  static char hb[(1 << 23) + 128];
  size_t o = (size_t) snprintf(hb, 100, "%s", pfx);
  if (n > (1 << 22) - 64) n = (1 << 22) - 64;
  if (!n) hb[o++] = '-';
  for (size_t i = 0; i < n; ++i) { hb[o++] = "0123456789abcdef"[b[i] >> 4]; hb[o++] = "0123456789abcdef"[b[i] & 15]; }
  hb[o++] = '\n';
  if (g_trace_fd >= 0) { ssize_t r = RAW_WRITE(g_trace_fd, hb, o); (void) r; }
}
static iwrc t_onwrite(struct iwdlsnr *self, off_t off, const void *buf, off_t len, int flags) {
  char p[64]; snprintf(p, sizeof(p), "L W %lld ", (long long) off);
  trhex(p, buf, (size_t) len);
  return g_orig.onwrite(self, off, buf, len, flags);
}
static iwrc t_onset(struct iwdlsnr *self, off_t off, uint8_t val, off_t len, int flags) {
  tr("L S %lld %d %lld\n", (long long) off, (int) val, (long long) len);
  return g_orig.onset(self, off, val, len, flags);
}
static iwrc t_oncopy(struct iwdlsnr *self, off_t off, off_t len, off_t noff, int flags) {
  tr("L C %lld %lld %lld\n", (long long) off, (long long) len, (long long) noff);
  return g_orig.oncopy(self, off, len, noff, flags);
}
static iwrc t_onresize(struct iwdlsnr *self, off_t osize, off_t nsize, int flags, bool *handled) {
  // traced BEFORE forwarding (the effects of the forced checkpoint follow); calls made while the WAL is
  // replaying are answered with *handled = false and are marked so afterwards
  tr("L R %lld %lld\n", (long long) osize, (long long) nsize);
  iwrc rc = g_orig.onresize(self, osize, nsize, flags, handled);
  if (!*handled) tr("L r\n");
  return rc;
}
static iwrc t_onsynced(struct iwdlsnr *self, int flags) {
  tr("L Y\n");
  return g_orig.onsynced(self, flags);
}
static void tap(struct iwkv *kv) {
  if (!kv->dlsnr) return;
  g_orig = *kv->dlsnr;
  kv->dlsnr->onwrite = t_onwrite; kv->dlsnr->onset = t_onset; kv->dlsnr->oncopy = t_oncopy;
  kv->dlsnr->onresize = t_onresize; kv->dlsnr->onsynced = t_onsynced;
}
static void snap(const char *src, const char *dst) {
  int a = open(src, O_RDONLY), b = open(dst, O_WRONLY | O_CREAT | O_TRUNC, 0600);
  static char cb[1 << 16];
  ssize_t n;
  while (a >= 0 && b >= 0 && (n = read(a, cb, sizeof(cb))) > 0) { ssize_t r = RAW_WRITE(b, cb, n); (void) r; }
  if (a >= 0) close(a);
  if (b >= 0) close(b);
}

static char g_dump[1 << 20];

// ---- execution of one history operation (also called from the effect callback while a backup copies)
static struct iwkv *g_kv;
static const char *g_dir;
static int g_flags;
static char **g_ops;
static int g_nops;
// backup injection: while iwkv_online_backup copies the main file (no lock held), the next g_inj_n operations of
// the history are executed at the g_inj_at-th write to the backup target - a deterministic stand-in for a
// concurrent writer thread at that point of the copy
static int g_bkp_active, g_bkp_writes, g_inj_at, g_inj_from, g_inj_n, g_inj_done, g_bkp_main_chunks;
// 'B' instead of 'b': the injected operations run on a second thread which is released at the same point; the
// backup thread waits for it (at most 300 ms: the writer may legitimately block until the copy is over)
static int g_threaded, g_wdone_flag;
static pthread_t g_bkp_thread;
static int g_bkp_before_calls;
static sem_t g_wstart, g_wdone;
static void exec_op(int i);
static void* writer_main(void *arg) {
  sem_wait(&g_wstart);
  for (int k = 0; k < g_inj_n; ++k) exec_op(g_inj_from + k);
  sem_post(&g_wdone);
  return 0;
}

static void exec_op(int i) {
  static uint8_t vbuf[1 << 22];
  struct iwkv *kv = g_kv;
  char opc[4096];
  snprintf(opc, sizeof(opc), "%s", g_ops[i]);
  char *op = opc;
  tr("B %d\n", i);
  iwrc rc = 0;
  int dumpit = 0;
  if (op[0] == 'p' || op[0] == 'd') {
    uint32_t dbid = (uint32_t) (op[1] - '0');
    char *f[4] = { 0 }; int nf = 0; char *sp = 0;
    for (char *t = strtok_r(op + 3, ":", &sp); t && nf < 4; t = strtok_r(0, ":", &sp)) f[nf++] = t;
    uint8_t *kb; size_t kl = unhex(f[0], &kb);
    struct iwdb *db = 0;
    int on = g_fx_on;
    g_fx_on = 0; // looking up an existing db handle has no effects; creation is a separate op
    rc = iwhmap_get_u32(kv->dbs, dbid) ? iwkv_db(kv, dbid, 0, &db) : IWKV_ERROR_NOTFOUND;
    g_fx_on = on;
    if (!rc) {
      struct iwkv_val k = { .data = kb, .size = kl };
      if (op[0] == 'p') {
        size_t vl = (size_t) atoll(f[1]);
        if (vl > sizeof(vbuf)) vl = sizeof(vbuf);
        genval(vbuf, vl, (unsigned) atoi(f[2]));
        struct iwkv_val v = { .data = vbuf, .size = vl };
        rc = iwkv_put(db, &k, &v, 0);
      } else {
        rc = iwkv_del(db, &k, 0);
      }
    }
    free(kb);
  } else if (op[0] == 's') {
    rc = iwkv_sync(kv, 0); dumpit = 1;
  } else if (op[0] == 'c') {
    rc = iwal_test_checkpoint(kv); dumpit = 1;
  } else if (op[0] == 'n') {
    struct iwdb *db = 0;
    rc = iwkv_db(kv, (uint32_t) (op[1] - '0'), 0, &db); dumpit = 1;
  } else if (op[0] == 'x') {
    // x<db>: iwkv_db_destroy - its blocks go back to the allocator; a database created next can land on them
    struct iwdb *db = 0;
    uint32_t dbid = (uint32_t) (op[1] - '0');
    rc = iwhmap_get_u32(kv->dbs, dbid) ? iwkv_db(kv, dbid, 0, &db) : IWKV_ERROR_NOTFOUND;
    if (!rc) rc = iwkv_db_destroy(&db);
    dumpit = 1;
  } else if (op[0] == 'F') {
    // F<k>: online backup into <dir>/bkp whose k-th write to the target fails (disk full); no writer inside.
    // A backup that does not come back within 10 s is reported as a hang (exit=SIG14).
    char bp[700]; uint64_t ts = 0;
    snprintf(bp, sizeof(bp), "%s/bkp", g_dir);
    g_fail_at = atoi(op + 1);
    if (g_fail_at == 0) {  // F0: the target itself cannot be created (its directory does not exist)
      snprintf(bp, sizeof(bp), "%s/no-such-directory/bkp", g_dir);
      tr("G fail 0 0\n");
    }
    g_inj_at = 1 << 30; g_inj_n = 0; g_inj_done = 0; g_bkp_writes = 0; g_threaded = 0;
    g_bkp_thread = pthread_self(); g_bkp_before_calls = 0;
    g_bkp_active = 1;
    alarm(10);
    rc = iwkv_online_backup(kv, &ts, bp);
    alarm(120);
    g_bkp_active = 0; g_fail_at = 0;
    fail_restore();
    tr("K 0 %d 1\n", g_bkp_writes);
  } else if (op[0] == 'X' || op[0] == 'Y') {
    // X: a second online backup (target <dir>/bkp2, pre-filled with a sentinel) - meant to be released into a
    //    running one; Y: an ordinary backup into <dir>/bkp3 after the first one returned
    char bp[700]; uint64_t ts = 0;
    static const char sentinel[] = "SENTINEL-do-not-touch";
    snprintf(bp, sizeof(bp), "%s/%s", g_dir, op[0] == 'X' ? "bkp2" : "bkp3");
    if (op[0] == 'X') {
      int sf = open(bp, O_WRONLY | O_CREAT | O_TRUNC, 0600);
      if (sf >= 0) { ssize_t r = RAW_WRITE(sf, sentinel, sizeof(sentinel)); (void) r; close(sf); }
    }
    int was = g_bkp_active;
    g_bkp_active = 0;
    rc = iwkv_online_backup(kv, &ts, bp);
    g_bkp_active = was;
    if (op[0] == 'X') {
      char rb[64] = { 0 };
      int sf = open(bp, O_RDONLY);
      ssize_t n = sf >= 0 ? read(sf, rb, sizeof(rb)) : -1;
      if (sf >= 0) close(sf);
      tr("X %s %lld %d\n", rcs(rc), fsize(bp), (n == (ssize_t) sizeof(sentinel) && !memcmp(rb, sentinel, sizeof(sentinel))) ? 1 : 0);
    }
  } else if (op[0] == 'q' || op[0] == 'Q') {
    // clean close (checkpoint on close), then leave.  Q<k>: the k-th write to the log file made by the close fails
    // with EFBIG - iwkv_close must report it (or the data must be there at the next open)
    if (op[0] == 'Q') { g_qfail_cnt = 0; g_qfail_at = atoi(op + 1) > 0 ? atoi(op + 1) : 1; }
    rc = iwkv_close(&g_kv);
    g_qfail_at = 0;
    fail_restore();
    tr("E %d %s %lld %lld\n", i, rcs(rc), fsize(g_walpath), fsize(g_dbpath));
    tr("N %lld\n", g_fx_n);
    _exit(0);
  } else if (op[0] == 'b' || op[0] == 'B') {
    // b<at>:<n>  online backup into <dir>/bkp, the next n operations run at the at-th write to the target
    char bp[700]; uint64_t ts = 0;
    snprintf(bp, sizeof(bp), "%s/bkp", g_dir);
    g_inj_at = atoi(op + 1);
    char *c = strchr(op, ':');
    g_inj_n = c ? atoi(c + 1) : 0;
    if (i + 1 + g_inj_n > g_nops) g_inj_n = g_nops - i - 1;
    g_inj_from = i + 1; g_inj_done = 0; g_bkp_writes = 0;
    g_bkp_main_chunks = (int) ((fsize(g_dbpath) + 16383) / 16384);
    g_threaded = op[0] == 'B';
    pthread_t wt;
    if (g_threaded) {
      sem_init(&g_wstart, 0, 0); sem_init(&g_wdone, 0, 0); g_wdone_flag = 0;
      pthread_create(&wt, 0, writer_main, 0);
    }
    g_bkp_thread = pthread_self(); g_bkp_before_calls = 0;
    g_bkp_active = 1;
    rc = iwkv_online_backup(kv, &ts, bp);
    g_bkp_active = 0;
    int g_wdone_flag_at_return = g_wdone_flag; // 1: the released writer finished while the backup thread waited for it
    if (g_threaded) {
      if (!g_inj_done) { sem_post(&g_wstart); } // never triggered: run them now
      if (!g_wdone_flag) sem_wait(&g_wdone);
      pthread_join(wt, 0);
      g_inj_done = g_inj_n;
    }
    tr("K %d %d %d\n", g_inj_done, g_bkp_writes, g_threaded ? g_wdone_flag_at_return : 1);
  }
  tr("E %d %s %lld %lld\n", i, rcs(rc), fsize(g_walpath), fsize(g_dbpath));
  if (dumpit && !rc && (g_flags & 2)) {
    int on = g_fx_on;
    g_fx_on = 0;
    dump(kv, g_dump, sizeof(g_dump));
    g_fx_on = on;
    tr("D %d %s\n", i, g_dump);
  }
}

static void inject_now(void) {
  g_bkp_active = 0;
  tr("G inject %d\n", g_bkp_writes);
  if (g_threaded) {
    struct timespec tsw;
    clock_gettime(CLOCK_REALTIME, &tsw);
    tsw.tv_nsec += 300000000L; if (tsw.tv_nsec >= 1000000000L) { tsw.tv_sec++; tsw.tv_nsec -= 1000000000L; }
    sem_post(&g_wstart);
    if (!sem_timedwait(&g_wdone, &tsw)) g_wdone_flag = 1;
  } else {
    for (int k = 0; k < g_inj_n; ++k) exec_op(g_inj_from + k);
  }
  g_inj_done = g_inj_n;
  g_bkp_active = 1;
}

static void bkp_write_seen(int fd) {
  if (!g_bkp_active) return;
  g_bkp_writes++;
  if (g_fail_at && g_bkp_writes == g_fail_at) {
    struct stat st;
    if (!fstat(fd, &st)) {
      struct rlimit rl;
      getrlimit(RLIMIT_FSIZE, &g_rl_saved);
      rl = g_rl_saved;
      rl.rlim_cur = (rlim_t) st.st_size;
      signal(SIGXFSZ, SIG_IGN);
      tr("G fail %d %lld\n", g_bkp_writes, (long long) st.st_size);
      if (!setrlimit(RLIMIT_FSIZE, &rl)) g_fail_armed = 1;
    }
    return;
  }
  // only while the main file is being copied: later stages hold the exclusive lock
  if (g_bkp_writes == g_inj_at && !g_inj_done && g_inj_at <= g_bkp_main_chunks) inject_now();
}

// wal.wal_lock_interceptor: called by every thread that takes the exclusive lock on behalf of the WAL, before
// (true) and after (false).  iwal_online_backup does so twice: around the stage-2 checkpoint and, when the
// WAL_COPY1 loop is over, before taking the lock for stage WAL_COPY2.  B0:<n> releases the writer at that second
// `before` call: the backup is in stage WAL_COPY1 and holds no lock, so a checkpoint made by the writer there
// keeps the log and appends a reset mark.
static iwrc lock_tap(bool before, void *op) {
  (void) op;
  if (g_bkp_active && before && pthread_equal(pthread_self(), g_bkp_thread)) {
    ++g_bkp_before_calls;
    // B-1: before the stage-2 checkpoint (stage BKP_STARTED); B0: after the WAL_COPY1 loop
    if (((g_bkp_before_calls == 1 && g_inj_at == -1) || (g_bkp_before_calls == 2 && g_inj_at == 0)) && !g_inj_done) inject_now();
  }
  return 0;
}

// flags: 1 = trace every effect, 2 = record a dump after every successful sync/checkpoint/db creation,
//        4 = snapshot the files after open (db0, wal0) and trace every listener call
static int child_run(const char *dir, int crc, int fresh, long long killat, int flags, char **ops, int nops) {
  char tp[700];
  snprintf(tp, sizeof(tp), fresh ? "%s/trace" : "%s/trace2", dir); // a continuation session keeps the first trace
  g_trace_fd = open(tp, O_WRONLY | O_CREAT | O_TRUNC | O_APPEND, 0600);
  struct iwkv *kv = 0;
  struct iwkv_opts o = mkopts(crc, fresh);
  fx_install();
  iwrc rc = iwkv_open(&o, &kv);
  tr("O %s %lld %lld\n", rcs(rc), fsize(g_walpath), fsize(g_dbpath));
  if (rc) _exit(3);
  dump(kv, g_dump, sizeof(g_dump));
  tr("D -1 %s\n", g_dump);
  if (flags & 4) {
    char sp[700];
    snprintf(sp, sizeof(sp), "%s/db0", dir); snap(g_dbpath, sp);
    snprintf(sp, sizeof(sp), "%s/wal0", dir); snap(g_walpath, sp);
    tap(kv);
  }
  g_kv = kv; g_dir = dir; g_flags = flags; g_ops = ops; g_nops = nops;
  g_killat = killat; g_trace_fx = flags & 1; g_fx_n = 0; g_fx_on = 1;
  for (int i = 0; i < nops; ++i) {
    exec_op(i);
    if (ops[i][0] == 'b' || ops[i][0] == 'B') i += g_inj_done; // executed inside the backup
  }
  g_fx_on = 0;
  tr("N %lld\n", g_fx_n);
  _exit(0);
}

static void child_rec(const char *dir, int crc, long long killat, int wfd) {
  struct iwkv *kv = 0;
  struct iwkv_opts o = mkopts(crc, 0);
  fx_install();
  g_killat = killat; g_fx_n = 0; g_fx_on = 1;
  iwrc rc = iwkv_open(&o, &kv);
  g_fx_on = 0;
  char hd[128];
  int n = snprintf(hd, sizeof(hd), "n=%lld rc=%s walsz=%lld dump=", g_fx_n, rcs(rc), fsize(g_walpath));
  ssize_t r = RAW_WRITE(wfd, hd, n);
  if (!rc) {
    size_t dl = dump(kv, g_dump, sizeof(g_dump));
    r = RAW_WRITE(wfd, g_dump, dl);
  } else {
    r = RAW_WRITE(wfd, "-", 1);
  }
  (void) r;
  _exit(0);
}

static void child_wal(const char *dir, int crc, int wfd) {
  static struct iwkv kvs;
  struct iwkv_opts o = mkopts(crc, 0);
  IWFS_FSM_OPTS fsmopts = {
    .exfile = { .file = { .path = o.path, .omode = IWFS_OWRITE | IWFS_OCREATE, .lock_mode = IWP_WLOCK },
                .maxoff = IWKV_MAX_DBSZ, .use_locks = true },
    .bpow = IWKV_FSM_BPOW, .hdrlen = KVHDRSZ, .mmap_all = true, .mmap_opts = IWFS_MMAP_RANDOM
  };
  fx_install();
  iwrc rc = iwkv_init();
  if (!rc) rc = iwal_create(&kvs, &o, &fsmopts, false);
  char b[256];
  long long msz = fsize(g_dbpath);
  uint32_t mc = 0;
  int fd = open(g_dbpath, O_RDONLY);
  if (fd >= 0 && msz > 0) {
    uint8_t *mm = mmap(0, (size_t) msz, PROT_READ, MAP_SHARED, fd, 0);
    if (mm != MAP_FAILED) mc = zcrc(mm, (size_t) msz);
  }
  int n;
  // mappings of the log file still present after the recovery step (_rollforward_exl maps the log and must unmap it)
  int walmaps = 0;
  {
    FILE *mf = fopen("/proc/self/maps", "r");
    char ml[1024];
    while (mf && fgets(ml, sizeof(ml), mf)) if (strstr(ml, g_walpath)) ++walmaps;
    if (mf) fclose(mf);
  }
#ifdef IOWOW_VERIF_FX_HOOK
  n = snprintf(b, sizeof(b), "rc=%s applied=%lld:%016llx main=%lld:%08x walsz=%lld walmaps=%d", rcs(rc), g_rec_n, g_rec_hash, msz, mc, fsize(g_walpath), walmaps);
#else
  n = snprintf(b, sizeof(b), "rc=%s applied=- main=%lld:%08x walsz=%lld walmaps=%d", rcs(rc), msz, mc, fsize(g_walpath), walmaps);
#endif
  ssize_t r = RAW_WRITE(wfd, b, n); (void) r;
  _exit(0);
}

int main(void) {
  static char line[1 << 22];
  static char *tv[1 << 16];
  setvbuf(stdout, 0, _IOLBF, 0);
  while (fgets(line, sizeof(line), stdin)) {
    int n = toks(line, tv, 1 << 16);
    if (n == 0) { printf("\n"); continue; }
    fflush(stdout);
    if (!strcmp(tv[0], "run") && n >= 6) {
      setpaths(tv[1]);
      pid_t pid = fork();
      if (pid == 0) { alarm(120); child_run(tv[1], atoi(tv[2]), atoi(tv[3]), atoll(tv[4]), atoi(tv[5]), tv + 6, n - 6); }
      int st = 0;
      waitpid(pid, &st, 0);
      if (WIFSIGNALED(st)) printf("run exit=SIG%d\n", WTERMSIG(st)); else printf("run exit=%d\n", WEXITSTATUS(st));
    } else if ((!strcmp(tv[0], "rec") && n >= 4) || (!strcmp(tv[0], "wal") && n >= 3)) {
      setpaths(tv[1]);
      int pf[2];
      if (pipe(pf)) { printf("%s exit=PIPE\n", tv[0]); continue; }
      pid_t pid = fork();
      if (pid == 0) {
        close(pf[0]);
        alarm(20); // a damaged store may send the library into an endless wait: reported as exit=SIG14
        int dn = open("/dev/null", O_WRONLY);
        dup2(dn, 2); // iwlog warnings of recovery carry timestamps
        if (tv[0][0] == 'r') child_rec(tv[1], atoi(tv[2]), atoll(tv[3]), pf[1]); else child_wal(tv[1], atoi(tv[2]), pf[1]);
        _exit(0);
      }
      close(pf[1]);
      static char res[(1 << 20) + 256];
      size_t o = 0;
      ssize_t r;
      while ((r = read(pf[0], res + o, sizeof(res) - 1 - o)) > 0) o += r;
      res[o] = 0;
      close(pf[0]);
      int st = 0;
      waitpid(pid, &st, 0);
      if (WIFSIGNALED(st)) printf("%s exit=SIG%d %s\n", tv[0], WTERMSIG(st), res); else printf("%s exit=%d %s\n", tv[0], WEXITSTATUS(st), res);
    } else if (!strcmp(tv[0], "cp") && n >= 3) {
      // copy <src>/db, <src>/db-wal into <dst>/ (files of a crashed run, kept for the model)
      char a[700], b[700];
      mkdir(tv[2], 0700);
      snprintf(a, sizeof(a), "%s/db", tv[1]); snprintf(b, sizeof(b), "%s/db", tv[2]); snap(a, b);
      snprintf(a, sizeof(a), "%s/db-wal", tv[1]); snprintf(b, sizeof(b), "%s/db-wal", tv[2]); snap(a, b);
      printf("cp ok\n");
    } else {
      printf("?\n");
    }
  }
  return 0;
}
