// C17 harness: text-consuming functions of the implementation, one query per line, one answer line per query.
// line:  <errno-to-preset>[:<fill byte, hex>[:w]] <cmd> <hex args...>      ("-" is the empty string)
//   fill = the byte every piece of caller-provided output storage (out buffers, match arrays, end pointers) and 64 KB of
//          stack below the call are pre-filled with ("what was there before"); default 00
//   w    = warm state: objects that live across calls (compiled regex + its output array, pool, out buffer) have already
//          served another call before the one whose result is printed
// A result must be a function of the query alone: the check runs every query under several prefixes and compares.
// Every input is copied into an exactly sized heap buffer (terminator = last byte, or no terminator at all for the
// length-delimited entry points), so that a one byte over/under-read is visible to ASan.
// iwjser.c is included to reach the static _jbl_unescape_json_string.
#include "json/iwjser.c"
#include "hcommon.h"
#include "iwre.h"
#include "iwini.h"
#include "iwxstr.h"
#include "iwpool.h"
#include "iwutils.h"
#include "iwconv.h"
#include "iwuuid.h"
#include "iwcsv.h"
#include <errno.h>
#include <math.h>
#include <signal.h>
#include <unistd.h>
#include <sys/time.h>

// Per-query watchdog (termination claim): every query may use WATCHDOG_S seconds of CPU time (ITIMER_PROF: user + system
// time of THIS process, so a loaded machine does not matter).  When it fires the answer of the query is the line
// `TIMEOUT` and the process exits with 77; the check restarts the harness after the culprit.
#ifndef WATCHDOG_S
#define WATCHDOG_S 3
#endif
static void on_watchdog(int sig) {
  (void) sig;
  static const char msg[] = "TIMEOUT\n";     // pending partial output of the query sits in the stdio buffer and is dropped
  ssize_t r = write(1, msg, sizeof(msg) - 1); (void) r;
  _exit(77);
}
static void watchdog(int seconds) {
  struct itimerval it = { { 0, 0 }, { seconds, 0 } };
  setitimer(ITIMER_PROF, &it, 0);
}

// hex -> exactly sized heap buffer, terminator is the last byte (hcommon's unhex leaves "-" unterminated)
static size_t unhex0(const char *h, uint8_t **out) {
  size_t n = strcmp(h, "-") ? strlen(h) / 2 : 0;
  uint8_t *b = malloc(n + 1);
  for (size_t i = 0; i < n; ++i) b[i] = (uint8_t) (hx(h[2 * i]) * 16 + hx(h[2 * i + 1]));
  b[n] = 0;
  *out = b;
  return n;
}
#define unhex unhex0

// zero-sized regions: ASan rounds malloc(0) up to one byte, so an empty buffer is the END of a small block
#define ZPAD 8
static char* zalloc(size_t n) {
  if (n) return malloc(n);
  return (char*) malloc(ZPAD) + ZPAD;
}
static void zfree(char *p, size_t n) {
  if (n) free(p); else free(p - ZPAD);
}
// exact buffer WITHOUT terminator (length delimited APIs)
static char* exact(const uint8_t *b, size_t n) {
  char *p = zalloc(n);
  if (n) memcpy(p, b, n);
  return p;
}

static int g_fill = 0, g_warm = 0;
// what an earlier, unrelated call left on the stack: uninitialised locals of the callee start out as g_fill
static void __attribute__((noinline)) poison_stack(int fill) {
  volatile char junk[1 << 16];
  memset((void*) junk, fill, sizeof(junk));
  __asm__ volatile ("" : : "r" (junk) : "memory");
}
// a pointer-sized value made of the fill byte
static const char* fillptr(void) {
  const char *p; memset(&p, g_fill, sizeof(p)); return p;
}

// iwre_match into an exactly sized heap array of `len` slots.  Answer: <ret> then EVERY slot of the array: offset into
// the text, -1 = null, S = still the pre-fill value (stale), W = any other pointer outside the text.
// ret = -1: the API defines errno (EINVAL) and leaves the array alone (`untouched` / `touched`).
static void do_rematch(const char *pat, const char *text, size_t len) {
  struct iwre *re = iwre_create(pat);
  if (!re) { printf("nocompile\n"); return; }
  size_t tl = strlen(text);
  const char **mp = (const char**) zalloc(len * sizeof(*mp));
  for (size_t i = 0; i < len; ++i) mp[i] = fillptr();
  char *decoy = 0;
  if (g_warm) {                                         // leftovers of an earlier match: pointers into ANOTHER buffer
    decoy = malloc(tl + 1); memcpy(decoy, text, tl + 1);
    int pe = errno;
    (void) iwre_match(re, decoy, mp, len);
    errno = pe;
  }
  poison_stack(g_fill);
  int r = iwre_match(re, text, mp, len);
  int e = errno;
  printf("%d", r);
  if (r < 0) {
    if (e == EINVAL) printf(" EINVAL"); else printf(" e%d", e);
    int same = 1;
    for (size_t i = 0; i < len; ++i) if (mp[i] != fillptr()) same = 0;
    printf(same ? " untouched" : " touched");
  } else {
    for (size_t i = 0; i < len; ++i) {
      if (!mp[i]) printf(" -1");
      else if (mp[i] >= text && mp[i] <= text + tl) printf(" %d", (int) (mp[i] - text));
      else if (mp[i] == fillptr()) printf(" S");
      else printf(" W");
    }
  }
  printf("\n");
  iwre_destroy(re);
  zfree((char*) mp, len * sizeof(*mp));
  free(decoy);
}

static void putdbl(double d) {
  if (isnan(d)) printf("nan");
  else if (isinf(d)) printf(d < 0 ? "-inf" : "inf");
  else { uint64_t u; memcpy(&u, &d, 8); printf("d%016" PRIx64, u); }
}

static void dump_json(struct jbl_node *n) {
  char *out = 0;
  iwrc rc = jbn_as_json_alloc(n, 0, &out);
  if (rc) printf("print-rc=%" PRIu64, (uint64_t) rc);
  else { puthex(out, strlen(out)); }
  free(out);
}

static int ini_cb(void *user, const char *section, const char *name, const char *value) {
  (void) user;
  printf(" ["); puthex(section, strlen(section)); printf("|");
  if (name) puthex(name, strlen(name)); else printf("~");
  printf("|");
  if (value) puthex(value, strlen(value)); else printf("~");
  printf("]");
  // the callback refuses (returns 0 => the line number becomes the error) names and values that start with `!`
  return !((value && value[0] == '!') || (name && name[0] == '!'));
}

// nodes reachable from n and the deepest level among them (root = level 0)
static void skel(struct jbl_node *n, int lvl, long *cnt, int *deep) {
  for ( ; n; n = n->next) {
    ++*cnt;
    if (lvl > *deep) *deep = lvl;
    if ((n->type == JBV_OBJECT || n->type == JBV_ARRAY) && n->child) skel(n->child, lvl + 1, cnt, deep);
    if (lvl == 0) break;
  }
}

struct rmap { int n; char **k; char **v; };
static const char* repl_cb(const char *key, void *op) {
  struct rmap *m = op;
  for (int i = 0; i < m->n; ++i) if (!strcmp(m->k[i], key)) return m->v[i];
  return 0;
}

int main(void) {
  static char line[1 << 22];
  char *tv[40];
  setvbuf(stdout, 0, _IOLBF, 1 << 16);
  signal(SIGPROF, on_watchdog);
  int wd = getenv("H_SAFETY_WATCHDOG") ? atoi(getenv("H_SAFETY_WATCHDOG")) : WATCHDOG_S;
  while ((watchdog(0), fgets(line, sizeof(line), stdin))) {
    watchdog(wd);
    int n = toks(line, tv, 40);
    if (n < 2) { printf("\n"); continue; }
    int pre = atoi(tv[0]);
    g_fill = 0; g_warm = 0;
    {
      char *c1 = strchr(tv[0], ':');
      if (c1) {
        g_fill = (int) strtol(c1 + 1, 0, 16) & 255;
        char *c2 = strchr(c1 + 1, ':');
        g_warm = c2 && c2[1] == 'w';
      }
    }
    const char *cmd = tv[1];
    char **a = tv + 2;
    int na = n - 2;
    if (!strcmp(cmd, "ptr") && na == 1) {
      uint8_t *p; unhex(a[0], &p);
      struct jbl_ptr *jp = 0;
      errno = pre;
      poison_stack(g_fill);
      iwrc rc = jbl_ptr_alloc((char*) p, &jp);
      if (rc == JBL_ERROR_JSON_POINTER) printf("E"); else printf("%" PRIu64, (uint64_t) rc);
      if (!rc && jp) {
        printf(" %d", jp->cnt);
        for (int i = 0; i < jp->cnt; ++i) { printf(" "); puthex(jp->n[i], strlen(jp->n[i])); }
      }
      printf("\n");
      free(jp); free(p);
    } else if (!strcmp(cmd, "hex2bin") && na == 2) {
      uint8_t *h; size_t l = unhex(a[0], &h);
      int max = atoi(a[1]);
      char *hx_ = exact(h, l);
      size_t osz = max > 0 ? max : 0;
      char *out = zalloc(osz);
      memset(out, g_fill, osz);
      if (g_warm) { char *ff = zalloc(l); memset(ff, 'f', l); (void) iwhex2bin(ff, (int) l, out, max); zfree(ff, l); }
      errno = pre;
      poison_stack(g_fill);
      size_t r = iwhex2bin(hx_, (int) l, out, max);
      printf("%zu ", r); puthex(out, r); printf("\n");
      zfree(out, osz); zfree(hx_, l); free(h);
    } else if (!strcmp(cmd, "bin2hex") && na == 2) {
      uint8_t *b; size_t l = unhex(a[0], &b);
      long max = atol(a[1]);
      char *bin = exact(b, l);
      size_t osz = max > 0 ? max : 0;
      char *out = zalloc(osz);
      memset(out, g_fill, osz);
      if (g_warm) { char *ff = zalloc(l); memset(ff, 0xff, l); (void) iwbin2hex(out, (size_t) max, (unsigned char*) ff, l); zfree(ff, l); }
      errno = pre;
      poison_stack(g_fill);
      char *r = iwbin2hex(out, (size_t) max, (unsigned char*) bin, l);
      if (!r) printf("null\n"); else { puthex(out, strlen(out)); printf("\n"); }
      zfree(out, osz); zfree(bin, l); free(b);
    } else if (!strcmp(cmd, "atoi") && na == 1) {
      uint8_t *b; unhex(a[0], &b);
      errno = pre;
      poison_stack(g_fill);
      printf("%" PRId64 "\n", iwatoi((char*) b)); free(b);
    } else if (!strcmp(cmd, "atoi2") && na == 1) {      // length delimited, buffer has NO terminator
      uint8_t *b; size_t l = unhex(a[0], &b);
      char *e = exact(b, l);
      errno = pre;
      poison_stack(g_fill);
      printf("%" PRId64 "\n", iwatoi2(e, l)); zfree(e, l); free(b);
    } else if (!strcmp(cmd, "atof") && na == 1) {
      uint8_t *b; unhex(a[0], &b);
      errno = pre;
      poison_stack(g_fill);
      putdbl((double) iwatof((char*) b)); printf("\n"); free(b);
    } else if (!strcmp(cmd, "afcmp") && na == 2) {
      uint8_t *x, *y; size_t lx = unhex(a[0], &x), ly = unhex(a[1], &y);
      char *ex = exact(x, lx), *ey = exact(y, ly);
      errno = pre;
      poison_stack(g_fill);
      printf("%d\n", sgn(iwafcmp(ex, (int) lx, ey, (int) ly)));
      zfree(ex, lx); zfree(ey, ly); free(x); free(y);
    } else if (!strcmp(cmd, "strtod") && na == 1) {
      uint8_t *b; unhex(a[0], &b);
      char *end = (char*) fillptr();
      errno = pre;
      poison_stack(g_fill);
      double d = iwstrtod((char*) b, &end);
      putdbl(d);
      if (end >= (char*) b && end <= (char*) b + strlen((char*) b)) printf(" %d\n", (int) (end - (char*) b));
      else printf(" %s\n", end == (char*) fillptr() ? "S" : "W");
      free(b);
    } else if ((!strcmp(cmd, "json") || !strcmp(cmd, "js")) && na == 1) {
      uint8_t *b; unhex(a[0], &b);
      struct iwpool *pool = iwpool_create(0);
      struct jbl_node *node = 0;
      int isjson = cmd[1] == 's' && cmd[2] == 'o';
      if (g_warm) { (void) (isjson ? jbn_from_json((char*) b, &node, pool) : jbn_from_js((char*) b, &node, pool)); node = 0; }
      errno = pre;
      poison_stack(g_fill);
      iwrc rc = isjson ? jbn_from_json((char*) b, &node, pool) : jbn_from_js((char*) b, &node, pool);
      printf("%" PRIu64 " ", (uint64_t) rc);
      if (!rc && node) dump_json(node); else printf("~");
      printf("\n");
      iwpool_destroy(pool); free(b);
    } else if (!strcmp(cmd, "num") && na == 1) {       // number branch of _jbl_parse_value
      uint8_t *b; unhex(a[0], &b);
      struct iwpool *pool = iwpool_create(0);
      JCTX ctx = { .pool = pool, .buf = (char*) b };
      errno = pre;
      poison_stack(g_fill);
      const char *e = _jbl_parse_value(&ctx, 0, 0, 0, 0, ctx.buf);
      if (ctx.rc || !ctx.root) printf("E\n");
      else if (ctx.root->type == JBV_I64) printf("I %" PRId64 " %d\n", ctx.root->vi64, (int) (e - (char*) b));
      else if (ctx.root->type == JBV_F64) { printf("F %d ", (int) (e - (char*) b)); putdbl(ctx.root->vf64); printf("\n"); }
      else printf("O %d\n", (int) ctx.root->type);
      iwpool_destroy(pool); free(b);
    } else if (!strcmp(cmd, "unesc") && na == 2) {     // <quote char code> <text after the opening quote>
      uint8_t *b; unhex(a[1], &b);
      char q = (char) atoi(a[0]);
      JCTX ctx = { 0 };
      const char *end = 0;
      errno = pre;
      poison_stack(g_fill);
      int len = _jbl_unescape_json_string(&ctx, q, (char*) b, 0, 0, &end);
      if (ctx.rc) printf("%s\n", ctx.rc == JBL_ERROR_PARSE_INVALID_CODEPOINT ? "Ecp" : ctx.rc == JBL_ERROR_PARSE_UNQUOTED_STRING ? "Eunq" : "E?");
      else {
        char *out = zalloc(len);                       // exactly len bytes: an overflowing fill pass is visible
        memset(out, g_fill, len);
        const char *end2 = 0;
        poison_stack(g_fill);
        int len2 = _jbl_unescape_json_string(&ctx, q, (char*) b, out, len, &end2);
        printf("%d %d %d %d ", len, len2, (int) (end - (char*) b), (int) (end2 - (char*) b));
        puthex(out, len2 < len ? len2 : len); printf("\n");
        zfree(out, len);
      }
      free(b);
    } else if ((!strcmp(cmd, "patch") || !strcmp(cmd, "merge")) && na == 2) {
      uint8_t *d, *p; unhex(a[0], &d); unhex(a[1], &p);
      struct iwpool *pool = iwpool_create(0);
      struct jbl_node *doc = 0, *pt = 0;
      errno = pre;
      poison_stack(g_fill);
      iwrc rc = jbn_from_json((char*) d, &doc, pool);
      if (!rc) rc = jbn_from_json((char*) p, &pt, pool);
      if (rc || !doc || !pt) printf("parse-rc=%" PRIu64 "\n", (uint64_t) rc);
      else {
        rc = cmd[0] == 'p' ? jbn_patch_auto(doc, pt, pool) : jbn_merge_patch(doc, pt, pool);
        printf("%" PRIu64 " ", (uint64_t) rc);
        if (!rc) dump_json(doc); else printf("~");
        printf("\n");
      }
      iwpool_destroy(pool); free(d); free(p);
    } else if (!strcmp(cmd, "at") && na == 2) {        // jbn_at(doc, pointer)
      uint8_t *d, *p; unhex(a[0], &d); unhex(a[1], &p);
      struct iwpool *pool = iwpool_create(0);
      struct jbl_node *doc = 0, *res = (struct jbl_node*) fillptr();
      errno = pre;
      iwrc rc = jbn_from_json((char*) d, &doc, pool);
      if (rc || !doc) printf("parse-rc=%" PRIu64 "\n", (uint64_t) rc);
      else {
        poison_stack(g_fill);
        rc = jbn_at(doc, (char*) p, &res);
        printf("%" PRIu64 " ", (uint64_t) rc);
        if (!rc && res) dump_json(res); else printf("~");
        printf("\n");
      }
      iwpool_destroy(pool); free(d); free(p);
    } else if (!strcmp(cmd, "xstr")) {                 // ops: c<hex> u<hex> s<n> p<n> i<pos>:<hex> k (= continue with a clone)
      struct iwxstr *x = iwxstr_create(atoi(a[0]));
      errno = pre;
      poison_stack(g_fill);
      for (int i = 1; i < na; ++i) {
        char op = a[i][0];
        if (op == 'c' || op == 'u') {
          uint8_t *b; size_t l = unhex(a[i] + 1, &b); char *e = exact(b, l);
          iwrc rc = op == 'c' ? iwxstr_cat(x, e, l) : iwxstr_unshift(x, e, l);
          if (rc) printf("rc%" PRIu64 " ", (uint64_t) rc);
          zfree(e, l); free(b);
        } else if (op == 'k') {                          // the clone replaces the original
          struct iwxstr *y = iwxstr_clone(x);
          if (!y) printf("noclone ");
          else { iwxstr_destroy(x); x = y; }
        } else if (op == 's') iwxstr_shift(x, strtoul(a[i] + 1, 0, 10));
        else if (op == 'p') iwxstr_pop(x, strtoul(a[i] + 1, 0, 10));
        else if (op == 'i') {
          char *colon = strchr(a[i], ':');
          size_t pos = strtoul(a[i] + 1, 0, 10);
          uint8_t *b; size_t l = unhex(colon + 1, &b); char *e = exact(b, l);
          iwrc rc = iwxstr_insert(x, pos, e, l);
          if (rc == IW_ERROR_OUT_OF_BOUNDS) printf("oob "); else if (rc) printf("rc%" PRIu64 " ", (uint64_t) rc);
          zfree(e, l); free(b);
        }
      }
      printf("%zu %zu ", iwxstr_size(x), strlen(iwxstr_ptr(x))); puthex(iwxstr_ptr(x), iwxstr_size(x)); printf("\n");
      iwxstr_destroy(x);
    } else if (!strcmp(cmd, "split") && na == 3) {
      uint8_t *h, *c; unhex(a[0], &h); unhex(a[1], &c);
      struct iwpool *pool = iwpool_create(0);
      if (g_warm) (void) iwpool_split_string(pool, (char*) h, (char*) c, !atoi(a[2]));
      errno = pre;
      poison_stack(g_fill);
      const char **r = iwpool_split_string(pool, (char*) h, (char*) c, atoi(a[2]));
      int k = 0;
      for ( ; r && r[k]; ++k) { if (k) printf(" "); puthex(r[k], strlen(r[k])); }
      if (!k) printf("none");
      printf("\n");
      iwpool_destroy(pool); free(h); free(c);
    } else if (!strcmp(cmd, "replace") && na >= 1 && (na % 2) == 1) {
      uint8_t *d; size_t dl = unhex(a[0], &d);
      int nk = (na - 1) / 2;
      struct rmap m = { nk, calloc(nk + 1, sizeof(char*)), calloc(nk + 1, sizeof(char*)) };
      for (int i = 0; i < nk; ++i) {
        uint8_t *k, *v; unhex(a[1 + 2 * i], &k); unhex(a[2 + 2 * i], &v);
        m.k[i] = (char*) k; m.v[i] = (char*) v;
      }
      struct iwxstr *res = 0;
      errno = pre;
      poison_stack(g_fill);
      iwrc rc = iwu_replace(&res, (char*) d, (int) dl, (const char**) m.k, nk, repl_cb, &m);
      printf("%" PRIu64 " ", (uint64_t) rc);
      if (!rc && res) { puthex(iwxstr_ptr(res), iwxstr_size(res)); iwxstr_destroy(res); } else printf("~");
      printf("\n");
      for (int i = 0; i < nk; ++i) { free(m.k[i]); free(m.v[i]); }
      free(m.k); free(m.v); free(d);
    } else if (!strcmp(cmd, "ini") && na == 1) {
      uint8_t *b; unhex(a[0], &b);
      errno = pre;
      printf("ini");
      poison_stack(g_fill);
      int rc = iwini_parse_string((char*) b, ini_cb, 0);
      printf(" rc=%d\n", rc);
      free(b);
    } else if ((!strcmp(cmd, "jsk") || !strcmp(cmd, "jssk")) && na == 1) {   // the parser's skeleton: rc class, end, nodes, depth
      uint8_t *b; unhex(a[0], &b);
      struct iwpool *pool = iwpool_create(0);
      JCTX ctx = { .pool = pool, .buf = (char*) b, .js = cmd[2] == 's' };
      errno = pre;
      poison_stack(g_fill);
      _jbl_skip_bom(&ctx);
      const char *e = _jbl_parse_value(&ctx, 0, 0, 0, 0, ctx.buf);
      long cnt = 0; int deep = -1;
      if (ctx.root) skel(ctx.root, 0, &cnt, &deep);
      if (ctx.rc) printf("%s", ctx.rc == JBL_ERROR_PARSE_JSON ? "Ejson" : ctx.rc == JBL_ERROR_MAX_NESTING_LEVEL_EXCEEDED ? "Enest"
                               : ctx.rc == JBL_ERROR_PARSE_INVALID_CODEPOINT ? "Ecp" : ctx.rc == JBL_ERROR_PARSE_UNQUOTED_STRING ? "Eunq" : "E?");
      else if (e >= (char*) b && e <= (char*) b + strlen((char*) b)) printf("%d", (int) (e - (char*) b));
      else printf("W");
      printf(" %ld %d\n", cnt, deep);
      iwpool_destroy(pool); free(b);
    } else if ((!strcmp(cmd, "jdoc") || !strcmp(cmd, "jsdoc")) && na == 1) {   // jbn_from_json / jbn_from_js as callers see them
      uint8_t *b; unhex(a[0], &b);
      struct iwpool *pool = iwpool_create(0);
      struct jbl_node *node = (struct jbl_node*) fillptr();
      errno = pre;
      poison_stack(g_fill);
      iwrc rc = cmd[1] == 's' ? jbn_from_js((char*) b, &node, pool) : jbn_from_json((char*) b, &node, pool);
      long cnt = 0; int deep = -1;
      if (node && node != (struct jbl_node*) fillptr()) skel(node, 0, &cnt, &deep);
      if (rc) printf("%s", rc == JBL_ERROR_PARSE_JSON ? "Ejson" : rc == JBL_ERROR_MAX_NESTING_LEVEL_EXCEEDED ? "Enest"
                           : rc == JBL_ERROR_PARSE_INVALID_CODEPOINT ? "Ecp" : rc == JBL_ERROR_PARSE_UNQUOTED_STRING ? "Eunq" : "E?");
      else printf("ok");
      printf(" %ld %d\n", cnt, deep);
      iwpool_destroy(pool); free(b);
    } else if (!strcmp(cmd, "jbl") && na == 1) {        // jbl_from_json: text -> binary document -> text
      uint8_t *b; unhex(a[0], &b);
      struct jbl *jbl = 0;
      errno = pre;
      poison_stack(g_fill);
      iwrc rc = jbl_from_json(&jbl, (char*) b);
      printf("%" PRIu64 " ", (uint64_t) rc);
      if (!rc && jbl) {
        struct iwxstr *x = iwxstr_create_empty();
        iwrc rc2 = jbl_as_json(jbl, jbl_xstr_json_printer, x, 0);
        if (rc2) printf("print-rc=%" PRIu64, (uint64_t) rc2); else puthex(iwxstr_ptr(x), iwxstr_size(x));
        iwxstr_destroy(x);
      } else printf("~");
      printf("\n");
      if (jbl) jbl_destroy(&jbl);
      free(b);
    } else if ((!strcmp(cmd, "jblpatch") || !strcmp(cmd, "jblmerge")) && na == 2) {   // binary document, patch given as text
      uint8_t *d, *p; unhex(a[0], &d); unhex(a[1], &p);
      struct jbl *jbl = 0;
      errno = pre;
      poison_stack(g_fill);
      iwrc rc = jbl_from_json(&jbl, (char*) d);
      if (rc || !jbl) printf("parse-rc=%" PRIu64 "\n", (uint64_t) rc);
      else {
        rc = cmd[3] == 'p' ? jbl_patch_from_json(jbl, (char*) p) : jbl_merge_patch(jbl, (char*) p);
        printf("%" PRIu64 " ", (uint64_t) rc);
        struct iwxstr *x = iwxstr_create_empty();
        iwrc rc2 = jbl_as_json(jbl, jbl_xstr_json_printer, x, 0);
        if (rc2) printf("print-rc=%" PRIu64, (uint64_t) rc2); else puthex(iwxstr_ptr(x), iwxstr_size(x));
        iwxstr_destroy(x);
        printf("\n");
      }
      if (jbl) jbl_destroy(&jbl);
      free(d); free(p);
    } else if (!strcmp(cmd, "sde") && na == 1) {        // iwstrtod: where `end` points to
      uint8_t *b; unhex(a[0], &b);
      char *end = (char*) fillptr();
      errno = pre;
      poison_stack(g_fill);
      (void) iwstrtod((char*) b, &end);
      if (end >= (char*) b && end <= (char*) b + strlen((char*) b)) printf("%d\n", (int) (end - (char*) b));
      else printf("%s\n", end == (char*) fillptr() ? "S" : "W");
      free(b);
    } else if (!strcmp(cmd, "wstrtoll") && na == 1) {   // iw_strtoll(v, 10, &rc): a checked wrapper that consults errno
      uint8_t *b; unhex(a[0], &b);
      iwrc rc = 0;
      errno = pre;
      poison_stack(g_fill);
      long long v = iw_strtoll((char*) b, 10, &rc);
      if (rc) printf("E\n"); else printf("%lld\n", v);
      free(b);
    } else if (!strcmp(cmd, "uuid") && na == 1) {
      uint8_t *b; unhex(a[0], &b);
      errno = pre;
      poison_stack(g_fill);
      printf("%d\n", (int) iwu_uuid_valid((char*) b));
      free(b);
    } else if (!strcmp(cmd, "csv") && na >= 1) {        // <len of the line buffer> <column>...   columns are length delimited
      size_t len = strtoul(a[0], 0, 10);
      char *lb = zalloc(len);
      memset(lb, g_fill, len);
      struct iwcsv *w = 0;
      errno = pre;
      poison_stack(g_fill);
      iwrc rc = iwcsv_wrap_line_buffer(lb, len, &w);
      if (rc || !w) printf("inv\n");
      else {
        for (int i = 1; i < na; ++i) {
          uint8_t *c; size_t l = unhex(a[i], &c); char *e = exact(c, l);
          printf("%d ", (int) iwcsv_column_add(w, e, (int) l));
          zfree(e, l); free(c);
        }
        int ol = -1;
        const char *r = iwcsv_line_flush(w, &ol);
        if (!r) printf("null\n"); else { puthex(r, ol); printf("\n"); }
      }
      zfree(lb, len);
    } else if (!strcmp(cmd, "re") && na == 2) {        // 16 slots, as most callers in the wild
      uint8_t *p, *t; unhex(a[0], &p); unhex(a[1], &t);
      errno = pre;
      do_rematch((char*) p, (char*) t, 16);
      free(p); free(t);
    } else if (!strcmp(cmd, "rem") && na == 3) {       // <pattern> <text> <number of slots of the output array>
      uint8_t *p, *t; unhex(a[0], &p); unhex(a[1], &t);
      errno = pre;
      do_rematch((char*) p, (char*) t, (size_t) strtoul(a[2], 0, 10));
      free(p); free(t);
    } else printf("?\n");
  }
  return 0;
}
