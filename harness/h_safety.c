// C17 harness: text-consuming functions of the implementation, one query per line, one answer line per query.
// line:  <errno-to-preset> <cmd> <hex args...>      ("-" is the empty string)
// Every input is copied into an exactly sized heap buffer (terminator = last byte, or no terminator at all for the
// length-delimited entry points), so that a one byte over/under-read is visible to ASan.
// iwjser.c is included to reach the static _jbl_unescape_json_string.
#include "json/iwjser.c"
#include "hcommon.h"
#include "iwre.h"
#include "iwini.h"
#include "iwxstr.h"
#include "iwpool.h"
#include "iwutils.h"
#include "iwconv.h"
#include <errno.h>
#include <math.h>

// hex -> exactly sized heap buffer, terminator is the last byte (hcommon's unhex leaves "-" unterminated)
static size_t unhex0(const char *h, uint8_t **out) {
  size_t n = strcmp(h, "-") ? strlen(h) / 2 : 0;
  uint8_t *b = malloc(n + 1);
  for (size_t i = 0; i < n; ++i) b[i] = (uint8_t) (hx(h[2 * i]) * 16 + hx(h[2 * i + 1]));
  b[n] = 0;
  *out = b;
  return n;
}
#define unhex unhex0

// zero-sized regions: ASan rounds malloc(0) up to one byte, so an empty buffer is the END of a small block
#define ZPAD 8
static char* zalloc(size_t n) {
  if (n) return malloc(n);
  return (char*) malloc(ZPAD) + ZPAD;
}
static void zfree(char *p, size_t n) {
  if (n) free(p); else free(p - ZPAD);
}
// exact buffer WITHOUT terminator (length delimited APIs)
static char* exact(const uint8_t *b, size_t n) {
  char *p = zalloc(n);
  if (n) memcpy(p, b, n);
  return p;
}

static void putdbl(double d) {
  if (isnan(d)) printf("nan");
  else if (isinf(d)) printf(d < 0 ? "-inf" : "inf");
  else { uint64_t u; memcpy(&u, &d, 8); printf("d%016" PRIx64, u); }
}

static void dump_json(struct jbl_node *n) {
  char *out = 0;
  iwrc rc = jbn_as_json_alloc(n, 0, &out);
  if (rc) printf("print-rc=%" PRIu64, (uint64_t) rc);
  else { puthex(out, strlen(out)); }
  free(out);
}

static int ini_cb(void *user, const char *section, const char *name, const char *value) {
  (void) user;
  printf(" ["); puthex(section, strlen(section)); printf("|");
  if (name) puthex(name, strlen(name)); else printf("~");
  printf("|");
  if (value) puthex(value, strlen(value)); else printf("~");
  printf("]");
  return 1;
}

struct rmap { int n; char **k; char **v; };
static const char* repl_cb(const char *key, void *op) {
  struct rmap *m = op;
  for (int i = 0; i < m->n; ++i) if (!strcmp(m->k[i], key)) return m->v[i];
  return 0;
}

int main(void) {
  static char line[1 << 22];
  char *tv[40];
  setvbuf(stdout, 0, _IOLBF, 1 << 16);
  while (fgets(line, sizeof(line), stdin)) {
    int n = toks(line, tv, 40);
    if (n < 2) { printf("\n"); continue; }
    int pre = atoi(tv[0]);
    const char *cmd = tv[1];
    char **a = tv + 2;
    int na = n - 2;
    if (!strcmp(cmd, "ptr") && na == 1) {
      uint8_t *p; unhex(a[0], &p);
      struct jbl_ptr *jp = 0;
      errno = pre;
      iwrc rc = jbl_ptr_alloc((char*) p, &jp);
      if (rc == JBL_ERROR_JSON_POINTER) printf("E"); else printf("%" PRIu64, (uint64_t) rc);
      if (!rc && jp) {
        printf(" %d", jp->cnt);
        for (int i = 0; i < jp->cnt; ++i) { printf(" "); puthex(jp->n[i], strlen(jp->n[i])); }
      }
      printf("\n");
      free(jp); free(p);
    } else if (!strcmp(cmd, "hex2bin") && na == 2) {
      uint8_t *h; size_t l = unhex(a[0], &h);
      int max = atoi(a[1]);
      char *hx_ = exact(h, l);
      size_t osz = max > 0 ? max : 0;
      char *out = zalloc(osz);
      errno = pre;
      size_t r = iwhex2bin(hx_, (int) l, out, max);
      printf("%zu ", r); puthex(out, r); printf("\n");
      zfree(out, osz); zfree(hx_, l); free(h);
    } else if (!strcmp(cmd, "bin2hex") && na == 2) {
      uint8_t *b; size_t l = unhex(a[0], &b);
      long max = atol(a[1]);
      char *bin = exact(b, l);
      size_t osz = max > 0 ? max : 0;
      char *out = zalloc(osz);
      errno = pre;
      char *r = iwbin2hex(out, (size_t) max, (unsigned char*) bin, l);
      if (!r) printf("null\n"); else { puthex(out, strlen(out)); printf("\n"); }
      zfree(out, osz); zfree(bin, l); free(b);
    } else if (!strcmp(cmd, "atoi") && na == 1) {
      uint8_t *b; unhex(a[0], &b);
      errno = pre;
      printf("%" PRId64 "\n", iwatoi((char*) b)); free(b);
    } else if (!strcmp(cmd, "atoi2") && na == 1) {      // length delimited, buffer has NO terminator
      uint8_t *b; size_t l = unhex(a[0], &b);
      char *e = exact(b, l);
      errno = pre;
      printf("%" PRId64 "\n", iwatoi2(e, l)); zfree(e, l); free(b);
    } else if (!strcmp(cmd, "atof") && na == 1) {
      uint8_t *b; unhex(a[0], &b);
      errno = pre;
      putdbl((double) iwatof((char*) b)); printf("\n"); free(b);
    } else if (!strcmp(cmd, "afcmp") && na == 2) {
      uint8_t *x, *y; size_t lx = unhex(a[0], &x), ly = unhex(a[1], &y);
      char *ex = exact(x, lx), *ey = exact(y, ly);
      errno = pre;
      printf("%d\n", sgn(iwafcmp(ex, (int) lx, ey, (int) ly)));
      zfree(ex, lx); zfree(ey, ly); free(x); free(y);
    } else if (!strcmp(cmd, "strtod") && na == 1) {
      uint8_t *b; unhex(a[0], &b);
      char *end = 0;
      errno = pre;
      double d = iwstrtod((char*) b, &end);
      putdbl(d); printf(" %d\n", (int) (end - (char*) b)); free(b);
    } else if ((!strcmp(cmd, "json") || !strcmp(cmd, "js")) && na == 1) {
      uint8_t *b; unhex(a[0], &b);
      struct iwpool *pool = iwpool_create(0);
      struct jbl_node *node = 0;
      errno = pre;
      iwrc rc = cmd[1] == 's' && cmd[2] == 'o' ? jbn_from_json((char*) b, &node, pool) : jbn_from_js((char*) b, &node, pool);
      printf("%" PRIu64 " ", (uint64_t) rc);
      if (!rc && node) dump_json(node); else printf("~");
      printf("\n");
      iwpool_destroy(pool); free(b);
    } else if (!strcmp(cmd, "num") && na == 1) {       // number branch of _jbl_parse_value
      uint8_t *b; unhex(a[0], &b);
      struct iwpool *pool = iwpool_create(0);
      JCTX ctx = { .pool = pool, .buf = (char*) b };
      errno = pre;
      const char *e = _jbl_parse_value(&ctx, 0, 0, 0, 0, ctx.buf);
      if (ctx.rc || !ctx.root) printf("E\n");
      else if (ctx.root->type == JBV_I64) printf("I %" PRId64 " %d\n", ctx.root->vi64, (int) (e - (char*) b));
      else if (ctx.root->type == JBV_F64) { printf("F %d ", (int) (e - (char*) b)); putdbl(ctx.root->vf64); printf("\n"); }
      else printf("O %d\n", (int) ctx.root->type);
      iwpool_destroy(pool); free(b);
    } else if (!strcmp(cmd, "unesc") && na == 2) {     // <quote char code> <text after the opening quote>
      uint8_t *b; unhex(a[1], &b);
      char q = (char) atoi(a[0]);
      JCTX ctx = { 0 };
      const char *end = 0;
      errno = pre;
      int len = _jbl_unescape_json_string(&ctx, q, (char*) b, 0, 0, &end);
      if (ctx.rc) printf("%s\n", ctx.rc == JBL_ERROR_PARSE_INVALID_CODEPOINT ? "Ecp" : ctx.rc == JBL_ERROR_PARSE_UNQUOTED_STRING ? "Eunq" : "E?");
      else {
        char *out = zalloc(len);                       // exactly len bytes: an overflowing fill pass is visible
        const char *end2 = 0;
        int len2 = _jbl_unescape_json_string(&ctx, q, (char*) b, out, len, &end2);
        printf("%d %d %d %d ", len, len2, (int) (end - (char*) b), (int) (end2 - (char*) b));
        puthex(out, len2 < len ? len2 : len); printf("\n");
        zfree(out, len);
      }
      free(b);
    } else if ((!strcmp(cmd, "patch") || !strcmp(cmd, "merge")) && na == 2) {
      uint8_t *d, *p; unhex(a[0], &d); unhex(a[1], &p);
      struct iwpool *pool = iwpool_create(0);
      struct jbl_node *doc = 0, *pt = 0;
      errno = pre;
      iwrc rc = jbn_from_json((char*) d, &doc, pool);
      if (!rc) rc = jbn_from_json((char*) p, &pt, pool);
      if (rc || !doc || !pt) printf("parse-rc=%" PRIu64 "\n", (uint64_t) rc);
      else {
        rc = cmd[0] == 'p' ? jbn_patch_auto(doc, pt, pool) : jbn_merge_patch(doc, pt, pool);
        printf("%" PRIu64 " ", (uint64_t) rc);
        if (!rc) dump_json(doc); else printf("~");
        printf("\n");
      }
      iwpool_destroy(pool); free(d); free(p);
    } else if (!strcmp(cmd, "at") && na == 2) {        // jbn_at(doc, pointer)
      uint8_t *d, *p; unhex(a[0], &d); unhex(a[1], &p);
      struct iwpool *pool = iwpool_create(0);
      struct jbl_node *doc = 0, *res = 0;
      errno = pre;
      iwrc rc = jbn_from_json((char*) d, &doc, pool);
      if (rc || !doc) printf("parse-rc=%" PRIu64 "\n", (uint64_t) rc);
      else {
        rc = jbn_at(doc, (char*) p, &res);
        printf("%" PRIu64 " ", (uint64_t) rc);
        if (!rc && res) dump_json(res); else printf("~");
        printf("\n");
      }
      iwpool_destroy(pool); free(d); free(p);
    } else if (!strcmp(cmd, "xstr")) {                 // ops: c<hex> u<hex> s<n> p<n> i<pos>:<hex>
      struct iwxstr *x = iwxstr_create(atoi(a[0]));
      errno = pre;
      for (int i = 1; i < na; ++i) {
        char op = a[i][0];
        if (op == 'c' || op == 'u') {
          uint8_t *b; size_t l = unhex(a[i] + 1, &b); char *e = exact(b, l);
          iwrc rc = op == 'c' ? iwxstr_cat(x, e, l) : iwxstr_unshift(x, e, l);
          if (rc) printf("rc%" PRIu64 " ", (uint64_t) rc);
          zfree(e, l); free(b);
        } else if (op == 's') iwxstr_shift(x, strtoul(a[i] + 1, 0, 10));
        else if (op == 'p') iwxstr_pop(x, strtoul(a[i] + 1, 0, 10));
        else if (op == 'i') {
          char *colon = strchr(a[i], ':');
          size_t pos = strtoul(a[i] + 1, 0, 10);
          uint8_t *b; size_t l = unhex(colon + 1, &b); char *e = exact(b, l);
          iwrc rc = iwxstr_insert(x, pos, e, l);
          if (rc == IW_ERROR_OUT_OF_BOUNDS) printf("oob "); else if (rc) printf("rc%" PRIu64 " ", (uint64_t) rc);
          zfree(e, l); free(b);
        }
      }
      printf("%zu %zu ", iwxstr_size(x), strlen(iwxstr_ptr(x))); puthex(iwxstr_ptr(x), iwxstr_size(x)); printf("\n");
      iwxstr_destroy(x);
    } else if (!strcmp(cmd, "split") && na == 3) {
      uint8_t *h, *c; unhex(a[0], &h); unhex(a[1], &c);
      struct iwpool *pool = iwpool_create(0);
      errno = pre;
      const char **r = iwpool_split_string(pool, (char*) h, (char*) c, atoi(a[2]));
      int k = 0;
      for ( ; r && r[k]; ++k) { if (k) printf(" "); puthex(r[k], strlen(r[k])); }
      if (!k) printf("none");
      printf("\n");
      iwpool_destroy(pool); free(h); free(c);
    } else if (!strcmp(cmd, "replace") && na >= 1 && (na % 2) == 1) {
      uint8_t *d; size_t dl = unhex(a[0], &d);
      int nk = (na - 1) / 2;
      struct rmap m = { nk, calloc(nk + 1, sizeof(char*)), calloc(nk + 1, sizeof(char*)) };
      for (int i = 0; i < nk; ++i) {
        uint8_t *k, *v; unhex(a[1 + 2 * i], &k); unhex(a[2 + 2 * i], &v);
        m.k[i] = (char*) k; m.v[i] = (char*) v;
      }
      struct iwxstr *res = 0;
      errno = pre;
      iwrc rc = iwu_replace(&res, (char*) d, (int) dl, (const char**) m.k, nk, repl_cb, &m);
      printf("%" PRIu64 " ", (uint64_t) rc);
      if (!rc && res) { puthex(iwxstr_ptr(res), iwxstr_size(res)); iwxstr_destroy(res); } else printf("~");
      printf("\n");
      for (int i = 0; i < nk; ++i) { free(m.k[i]); free(m.v[i]); }
      free(m.k); free(m.v); free(d);
    } else if (!strcmp(cmd, "ini") && na == 1) {
      uint8_t *b; unhex(a[0], &b);
      errno = pre;
      printf("ini");
      int rc = iwini_parse_string((char*) b, ini_cb, 0);
      printf(" rc=%d\n", rc);
      free(b);
    } else if (!strcmp(cmd, "re") && na == 2) {
      uint8_t *p, *t; unhex(a[0], &p); unhex(a[1], &t);
      errno = pre;
      struct iwre *re = iwre_create((char*) p);
      if (!re) printf("nocompile\n");
      else {
        const char *mp[16];
        int r = iwre_match(re, (char*) t, mp, 16);
        printf("%d", r);
        for (int i = 0; i < 2 * r && i < 16; ++i) printf(" %d", mp[i] ? (int) (mp[i] - (char*) t) : -1);
        printf("\n");
        iwre_destroy(re);
      }
      free(p); free(t);
    } else printf("?\n");
  }
  return 0;
}
