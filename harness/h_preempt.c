// C07 preemption explorer.  Thread A runs ONE observed operation; every lock release (rwlock / mutex / spin unlock) A makes
// inside it is a numbered hand-over point.  At release number k the harness lets thread B run ONE complete operation and
// then resumes A.  B is never waited for when it cannot finish: its lock acquisitions are tried first (trylock) and a
// failed try / a condition wait hands control back to A at once ("blocked"); a bounded wait (PE_WAIT_MS, 200 ms) is only
// the fallback.  Locks are interposed with dlsym(RTLD_NEXT) as in h_lockord.c and classified the same way
// (store/db/fsm/exf/wal/wk/spin/other); the sequence of A's lock events is reported for the comparison with the section
// model (coq/CC/Sections.v).  One process explores k = kfrom..kto, each k on a freshly created store.
//
// Input (stdin):
//   cfg <path> <wal> <metalen>
//   s <op...>            set-up operation, executed sequentially before the threads start
//   a <op...>            the observed operation of thread A
//   b <op...>            the operation of thread B
//   p <op...>            operation executed after both threads have finished (reported as thread 2)
//   run <kfrom> <kto>    kto = 0: up to the number of releases A's operation makes; kto < 0: only kfrom (k = 0: B runs after A)
// ops:  put d k v | get d k | del d k | scan d | cset d k v | cdel d k | setmeta d v | getmeta d | dbcreate d | dbdestroy d
//       | dbopen d <00|01>  (iwkv_db with flags 0 / IWDB_VNUM64_KEYS)
//       | sync | checkpoint | backup | grow d k   (put of a value at least as long as the file, so that the file must grow)
//       values: hex, or *<len>:<bytehex> (len copies of one byte)
// Output per k:
//   RUN <k> nrel=<n> bwin=<none|done|blocked:<class>|condwait|timeout> grew=<0|1>
//   EV <events of A>        a<class><r|w> = acquire, r<class> = release, e.g. astorer adbw aexfr rexf ...
//   <tid> <inv> <res> <kind> <db> <key> <value> <answer>     (tid 0 = A, 1 = B)
//   HELD <tid> <kind> <class:mode,...>   the call returned with these locks held by the calling thread (they are then released)
//   FINAL <d> <dump>   (d = 3+i: metadata of database i, 6+i: its flags)   REOPEN <d> <dump>   BACKUP <d> <dump>
//   ALLOC <n>          allocated data blocks of the file after the run (only with `p` operations)
//   MAPDIFF <n> <first> <last> <bytes before> <bytes after>   WAL mode: n bytes of the mapping at rest are not what the
//                      file plus the log hold (they change when a checkpoint replaces the mapping)
//   END <k>
// "HANG <k>" if a call does not return within the watchdog time.
#define _GNU_SOURCE
#include <dlfcn.h>
#include <pthread.h>
#include <semaphore.h>
#include <stdatomic.h>
#include <stdint.h>
#include <stdio.h>
#include <stdlib.h>
#include <string.h>
#include <errno.h>
#include <time.h>
#include <malloc.h>

enum { LC_STORE = 1, LC_DB, LC_FSM, LC_EXF, LC_WAL, LC_WK, LC_SPIN, LC_OTHER };
static const char *lc_name[] = { "?", "store", "db", "fsm", "exf", "wal", "wk", "spin", "other" };

static __thread int pe_role;          // 1: thread A inside the observed operation, 2: thread B inside its operation
static int pe_k;                      // hand-over point (number of the release of A), 0 = none
static int pe_nrel;                   // releases made by A so far inside the operation
static atomic_int pe_bstate;          // 0 B not released yet, 1 B runs inside the window, 2 window closed
static sem_t pe_semA, pe_semB;
static char pe_bwin[32];
static int pe_wait_ms = 200;

static const void *pe_store, *pe_wk, *pe_exf, *pe_fsm;
static const char *pe_wal_lo, *pe_wal_hi;
static int pe_probe;
static const void *pe_probe_seen[8];
static int pe_nprobe;

#define PE_MAXEV 16384
static struct { char t; char cls; char mode; } pe_ev[PE_MAXEV];
static int pe_nev;

static int pe_class(const void *a, int is_rw, int is_spin) {
  if (is_spin) return LC_SPIN;
  if (is_rw) return a == pe_store ? LC_STORE : a == pe_exf ? LC_EXF : a == pe_fsm ? LC_FSM : LC_DB;
  if (a == pe_wk) return LC_WK;
  if (pe_wal_lo && (const char*) a >= pe_wal_lo && (const char*) a < pe_wal_hi) return LC_WAL;
  return LC_OTHER;
}

static void pe_b_yield(const char *why, int cls) {
  int exp = 1;
  if (atomic_compare_exchange_strong(&pe_bstate, &exp, 2)) {
    if (cls) snprintf(pe_bwin, sizeof(pe_bwin), "%s:%s", why, lc_name[cls]); else snprintf(pe_bwin, sizeof(pe_bwin), "%s", why);
    sem_post(&pe_semA);
  }
}

// locks the calling thread holds, tracked inside an API call of the harness (every thread): a call must return with none
#define PH_MAX 64
static __thread struct { const void *addr; char kind; char mode; } ph[PH_MAX];   // kind: 0 mutex, 1 rwlock, 2 spin
static __thread int ph_n, ph_on;
static void ph_add(const void *l, int kind, int mode) {
  if (ph_on && ph_n < PH_MAX) { ph[ph_n].addr = l; ph[ph_n].kind = (char) kind; ph[ph_n].mode = (char) mode; ++ph_n; }
}
static void ph_del(const void *l) {
  if (!ph_on) return;
  for (int i = ph_n - 1; i >= 0; --i) if (ph[i].addr == l) { for (int j = i; j + 1 < ph_n; ++j) ph[j] = ph[j + 1]; --ph_n; return; }
}

static void pe_on_acquired(const void *l, int mode, int is_rw, int is_spin) {
  ph_add(l, is_spin ? 2 : is_rw ? 1 : 0, mode);
  if (pe_probe && is_rw && pe_nprobe < 8) pe_probe_seen[pe_nprobe++] = l;
  if (pe_role == 1 && pe_nev < PE_MAXEV) {
    pe_ev[pe_nev].t = 'a'; pe_ev[pe_nev].cls = (char) pe_class(l, is_rw, is_spin); pe_ev[pe_nev].mode = mode ? 'w' : 'r'; ++pe_nev;
  }
}

// called AFTER the real unlock
static void pe_on_released(const void *l, int is_rw, int is_spin) {
  ph_del(l);
  if (pe_role != 1) return;
  if (pe_nev < PE_MAXEV) { pe_ev[pe_nev].t = 'r'; pe_ev[pe_nev].cls = (char) pe_class(l, is_rw, is_spin); pe_ev[pe_nev].mode = 0; ++pe_nev; }
  int n = ++pe_nrel;
  if (n != pe_k) return;
  atomic_store(&pe_bstate, 1);
  sem_post(&pe_semB);
  struct timespec ts;
  clock_gettime(CLOCK_REALTIME, &ts);
  ts.tv_nsec += (long) (pe_wait_ms % 1000) * 1000000L; ts.tv_sec += pe_wait_ms / 1000;
  if (ts.tv_nsec >= 1000000000L) { ts.tv_nsec -= 1000000000L; ts.tv_sec += 1; }
  int r;
  while ((r = sem_timedwait(&pe_semA, &ts)) && errno == EINTR) { }
  if (r) {
    int exp = 1;
    if (atomic_compare_exchange_strong(&pe_bstate, &exp, 2)) snprintf(pe_bwin, sizeof(pe_bwin), "timeout");
    else while (sem_wait(&pe_semA) && errno == EINTR) { }   // B closed the window at the same moment: consume its post
  }
}

#define REAL(name) static __typeof__(&name) real; if (!real) real = (__typeof__(&name)) dlsym(RTLD_NEXT, #name)
#define REAL2(var, name) static __typeof__(&name) var; if (!var) var = (__typeof__(&name)) dlsym(RTLD_NEXT, #name)

int pthread_rwlock_rdlock(pthread_rwlock_t *l) {
  REAL(pthread_rwlock_rdlock);
  if (pe_role == 2) {
    REAL2(tr, pthread_rwlock_tryrdlock);
    if (!tr(l)) { ph_add(l, 1, 0); return 0; }
    pe_b_yield("blocked", pe_class(l, 1, 0));
  }
  int r = real(l); if (!r) pe_on_acquired(l, 0, 1, 0); return r;
}
int pthread_rwlock_wrlock(pthread_rwlock_t *l) {
  REAL(pthread_rwlock_wrlock);
  if (pe_role == 2) {
    REAL2(tr, pthread_rwlock_trywrlock);
    if (!tr(l)) { ph_add(l, 1, 1); return 0; }
    pe_b_yield("blocked", pe_class(l, 1, 0));
  }
  int r = real(l); if (!r) pe_on_acquired(l, 1, 1, 0); return r;
}
int pthread_rwlock_unlock(pthread_rwlock_t *l) { REAL(pthread_rwlock_unlock); int r = real(l); pe_on_released(l, 1, 0); return r; }
int pthread_mutex_lock(pthread_mutex_t *l) {
  REAL(pthread_mutex_lock);
  if (pe_role == 2) {
    REAL2(tr, pthread_mutex_trylock);
    if (!tr(l)) { ph_add(l, 0, 1); return 0; }
    pe_b_yield("blocked", pe_class(l, 0, 0));
  }
  int r = real(l); if (!r) pe_on_acquired(l, 1, 0, 0); return r;
}
int pthread_mutex_unlock(pthread_mutex_t *l) { REAL(pthread_mutex_unlock); int r = real(l); pe_on_released(l, 0, 0); return r; }
int pthread_spin_lock(pthread_spinlock_t *l) {
  REAL(pthread_spin_lock);
  if (pe_role == 2) {
    REAL2(tr, pthread_spin_trylock);
    if (!tr(l)) { ph_add((const void*) l, 2, 1); return 0; }
    pe_b_yield("blocked", LC_SPIN);
  }
  int r = real(l); if (!r) pe_on_acquired((const void*) l, 1, 0, 1); return r;
}
int pthread_spin_unlock(pthread_spinlock_t *l) { REAL(pthread_spin_unlock); int r = real(l); pe_on_released((const void*) l, 0, 1); return r; }
int pthread_cond_wait(pthread_cond_t *c, pthread_mutex_t *m) {
  REAL(pthread_cond_wait);
  if (pe_role == 2) pe_b_yield("condwait", 0);
  return real(c, m);
}

#include "kv/iwkv.c"
#include "hcommon.h"
#include <signal.h>
#include <unistd.h>
#include <execinfo.h>

#define NDBS 3
#define MAXS 1024
struct opr { char kind[12]; int db; uint8_t *k; size_t kl; uint8_t *v; size_t vl; long inv, res; char *ans; char *venc; char *held; };
static struct opr sops[MAXS], pops[MAXS], aop, bop;
static int nsops, npops, have_b;
static IWKV kv;
static IWDB dbs[NDBS];
static char path[1024], bkpath[1100];
static int wal_on, metalen = 64, cur_k;
static atomic_long stamp;
static off_t fsize0;
static int did_backup;

static void on_segv(int sig) { void *bt[32]; int n = backtrace(bt, 32); backtrace_symbols_fd(bt, n, 2); printf("CRASH %d signal %d\n", cur_k, sig); fflush(stdout); _exit(4); }
static void on_alarm(int sig) { char m[32]; int n = snprintf(m, sizeof(m), "HANG %d\n", cur_k); (void) !write(1, m, (size_t) n); _exit(3); }

static uint32_t crc_tab[256];
static uint32_t crc32_of(const uint8_t *p, size_t n) {
  if (!crc_tab[1]) for (uint32_t i = 0; i < 256; ++i) { uint32_t c = i; for (int j = 0; j < 8; ++j) c = (c & 1) ? 0xEDB88320U ^ (c >> 1) : c >> 1; crc_tab[i] = c; }
  uint32_t c = 0xFFFFFFFFU;
  for (size_t i = 0; i < n; ++i) c = crc_tab[(c ^ p[i]) & 0xFF] ^ (c >> 8);
  return c ^ 0xFFFFFFFFU;
}
// canonical text of a value: hex up to 128 bytes, L<len>x<crc32> beyond
static char* venc(const void *p, size_t n) {
  char *o;
  if (!n) return strdup("-");
  if (n <= 128) { o = malloc(2 * n + 1); for (size_t i = 0; i < n; ++i) sprintf(o + 2 * i, "%02x", ((const uint8_t*) p)[i]); return o; }
  o = malloc(40); snprintf(o, 40, "L%zux%08x", n, crc32_of(p, n)); return o;
}
static size_t parse_val(const char *s, uint8_t **out) {
  if (s[0] == '*') {
    size_t n = strtoul(s + 1, 0, 10);
    const char *c = strchr(s, ':');
    int b = c ? (int) strtol(c + 1, 0, 16) : 0;
    *out = malloc(n + 1); memset(*out, b, n); return n;
  }
  return unhex(s, out);
}

static char* errname(iwrc rc) {
  char b[40];
  iwrc_strip_errno(&rc);
  if (rc == IWKV_ERROR_NOTFOUND) return strdup("NOTFOUND");
  snprintf(b, sizeof(b), "E%llu", (unsigned long long) rc); return strdup(b);
}

static char* scan(IWDB db) {
  IWKV_cursor c;
  size_t cap = 256, len = 0;
  char *out = malloc(cap);
  out[0] = 0;
  iwrc rc = iwkv_cursor_open(db, &c, IWKV_CURSOR_BEFORE_FIRST, 0);
  if (rc) { free(out); return errname(rc); }
  while (!(rc = iwkv_cursor_to(c, IWKV_CURSOR_NEXT))) {
    IWKV_val k, v;
    rc = iwkv_cursor_get(c, &k, &v);
    if (rc) break;
    char *ke = venc(k.data, k.size), *ve = venc(v.data, v.size);
    size_t need = len + strlen(ke) + strlen(ve) + 8;
    if (need > cap) { cap = need * 2; out = realloc(out, cap); }
    len += (size_t) sprintf(out + len, "%s=%s,", ke, ve);
    free(ke); free(ve);
    iwkv_kv_dispose(&k, &v);
  }
  iwkv_cursor_close(&c);
  if (rc && rc != IWKV_ERROR_NOTFOUND) { free(out); return errname(rc); }
  if (!len) strcpy(out, "-");
  return out;
}

static char* getmeta(IWDB db) {
  uint8_t *buf = calloc(1, (size_t) metalen + 1);
  size_t rsz = 0;
  iwrc rc = iwkv_db_get_meta(db, buf, (size_t) metalen, &rsz);
  char *o = rc ? errname(rc) : venc(buf, rsz);
  free(buf);
  return o;
}

static void do_op(struct opr *o) {
  IWDB db = (o->db >= 0 && o->db < NDBS) ? dbs[o->db] : 0;
  const char *kd = o->kind;
  iwrc rc = 0;
  free(o->held); o->held = 0;
  ph_n = 0; ph_on = 1;
  o->inv = atomic_fetch_add(&stamp, 1);
  if (!strcmp(kd, "dbcreate")) {
    rc = iwkv_db(kv, (uint32_t) o->db + 1, 0, &dbs[o->db]);
    o->ans = rc == IWKV_ERROR_INCOMPATIBLE_DB_MODE ? strdup("INCOMPAT") : rc ? errname(rc) : strdup("OK");
  } else if (!strcmp(kd, "dbopen")) {   // dbopen d <00|01>: iwkv_db with flags 0 / IWDB_VNUM64_KEYS, the handle is not kept
    IWDB h = 0;
    rc = iwkv_db(kv, (uint32_t) o->db + 1, (o->kl && o->k[0]) ? IWDB_VNUM64_KEYS : 0, &h);
    o->ans = rc == IWKV_ERROR_INCOMPATIBLE_DB_MODE ? strdup("INCOMPAT") : rc ? errname(rc) : strdup("OK");
  } else if (!strcmp(kd, "sync")) {
    rc = iwkv_sync(kv, 0);
    o->ans = rc ? errname(rc) : strdup("OK");
  } else if (!strcmp(kd, "checkpoint")) {
    rc = iwal_test_checkpoint(kv);
    o->ans = (rc && rc != IWKV_ERROR_WAL_MODE_REQUIRED) ? errname(rc) : strdup("OK");
  } else if (!strcmp(kd, "backup")) {
    uint64_t ts;
    rc = iwkv_online_backup(kv, &ts, bkpath);
    if (!rc) did_backup = 1;
    o->ans = (rc && rc != IWKV_ERROR_WAL_MODE_REQUIRED) ? errname(rc) : strdup("OK");
  } else if (!db) {
    o->ans = strdup("NODB");
  } else if (!strcmp(kd, "put") || !strcmp(kd, "grow")) {
    if (!strcmp(kd, "grow")) {  // a value that cannot fit into the file as it is
      free(o->v); o->vl = (size_t) fsize0 + 4096; o->v = malloc(o->vl); memset(o->v, 'g', o->vl);
      free(o->venc); o->venc = venc(o->v, o->vl);
    }
    IWKV_val k = { .data = o->k, .size = o->kl }, v = { .data = o->v, .size = o->vl };
    rc = iwkv_put(db, &k, &v, 0);
    o->ans = rc ? errname(rc) : strdup("OK");
  } else if (!strcmp(kd, "get")) {
    IWKV_val k = { .data = o->k, .size = o->kl }, v = { 0 };
    rc = iwkv_get(db, &k, &v);
    if (rc) o->ans = errname(rc); else { o->ans = venc(v.data, v.size); iwkv_val_dispose(&v); }
  } else if (!strcmp(kd, "del")) {
    IWKV_val k = { .data = o->k, .size = o->kl };
    rc = iwkv_del(db, &k, 0);
    o->ans = rc ? errname(rc) : strdup("OK");
  } else if (!strcmp(kd, "scan")) {
    o->ans = scan(db);
  } else if (!strcmp(kd, "cset") || !strcmp(kd, "cdel")) {
    IWKV_cursor c;
    IWKV_val k = { .data = o->k, .size = o->kl }, v = { .data = o->v, .size = o->vl };
    rc = iwkv_cursor_open(db, &c, IWKV_CURSOR_EQ, &k);
    if (!rc) {
      rc = kd[1] == 's' ? iwkv_cursor_set(c, &v, 0) : iwkv_cursor_del(c, 0);
      iwkv_cursor_close(&c);
    }
    o->ans = rc ? errname(rc) : strdup("OK");
  } else if (!strcmp(kd, "setmeta")) {
    rc = iwkv_db_set_meta(db, o->v, o->vl);
    o->ans = rc ? errname(rc) : strdup("OK");
  } else if (!strcmp(kd, "getmeta")) {
    o->ans = getmeta(db);
  } else if (!strcmp(kd, "dbdestroy")) {
    rc = iwkv_db_destroy(&dbs[o->db]);
    o->ans = rc ? errname(rc) : strdup("OK");
  } else o->ans = strdup("?");
  o->res = atomic_fetch_add(&stamp, 1);
  if (ph_n > 0) {
    // the call returned holding locks: report them, then release them so that the sweep can go on
    char b[512]; size_t l = 0;
    for (int i = 0; i < ph_n && l + 24 < sizeof(b); ++i)
      l += (size_t) snprintf(b + l, sizeof(b) - l, "%s%s:%c", i ? "," : "", lc_name[pe_class(ph[i].addr, ph[i].kind == 1, ph[i].kind == 2)], ph[i].mode ? 'w' : 'r');
    o->held = strdup(b);
    int sr = pe_role; pe_role = 0;
    while (ph_n > 0) {
      const void *a = ph[ph_n - 1].addr; int kd2 = ph[ph_n - 1].kind, before = ph_n;
      if (kd2 == 1) pthread_rwlock_unlock((pthread_rwlock_t*) a); else if (kd2 == 2) pthread_spin_unlock((pthread_spinlock_t*) a); else pthread_mutex_unlock((pthread_mutex_t*) a);
      if (ph_n >= before) --ph_n;
    }
    pe_role = sr;
  }
  ph_on = 0;
}

static void parse_op(struct opr *o, char **tv, int n) {   // tv[0] = kind
  memset(o, 0, sizeof(*o));
  snprintf(o->kind, sizeof(o->kind), "%s", tv[0]);
  o->db = -1;
  const char *kd = o->kind;
  if (n > 1) o->db = atoi(tv[1]);
  if (!strcmp(kd, "setmeta")) { if (n > 2) o->vl = parse_val(tv[2], &o->v); }
  else {
    if (n > 2) o->kl = unhex(tv[2], &o->k);
    if (n > 3) o->vl = parse_val(tv[3], &o->v);
  }
  o->venc = o->v ? venc(o->v, o->vl) : strdup("-");
}

static void print_call(int tid, struct opr *o) {
  char *ke = o->k ? venc(o->k, o->kl) : strdup("-");
  printf("%d %ld %ld %s %d %s %s %s\n", tid, o->inv, o->res, o->kind, o->db, ke, o->venc, o->ans ? o->ans : "NORETURN");
  if (o->held) printf("HELD %d %s %s\n", tid, o->kind, o->held);
  free(ke);
}

static void* thread_a(void *arg) {
  pe_nrel = 0; pe_nev = 0;
  pe_role = 1;
  do_op(&aop);
  pe_role = 0;
  return 0;
}
static void* thread_b(void *arg) {
  while (sem_wait(&pe_semB) && errno == EINTR) { }
  pe_role = 2;
  do_op(&bop);
  pe_role = 0;
  pe_b_yield("done", 0);
  return 0;
}

static iwrc open_store(const char *p, int trunc) {
  struct iwkv_opts o = { .path = p, .random_seed = 1, .oflags = trunc ? IWKV_TRUNC : 0,
                         .wal = { .enabled = wal_on != 0, .savepoint_timeout_sec = 100000, .checkpoint_timeout_sec = 200000,
                                  .wal_buffer_sz = 64 * 1024, .checkpoint_buffer_sz = 32 * 1024 * 1024 } };
  return iwkv_open(&o, &kv);
}

static void classify_locks(void) {
  uint8_t *mm;
  pe_store = &kv->rwl; pe_wk = &kv->wk_mtx; pe_exf = pe_fsm = 0;
  pthread_rwlock_rdlock(&kv->rwl);
  pe_probe = 1; pe_nprobe = 0;
  if (!kv->fsm.acquire_mmap(&kv->fsm, 0, &mm, 0)) kv->fsm.release_mmap(&kv->fsm);
  if (pe_nprobe) pe_exf = pe_probe_seen[0];
  pe_nprobe = 0;
  IWFS_FSM_STATE st;
  kv->fsm.state(&kv->fsm, &st);
  for (int i = 0; i < pe_nprobe; ++i) if (pe_probe_seen[i] != pe_exf) { pe_fsm = pe_probe_seen[i]; break; }
  pe_probe = 0;
  pthread_rwlock_unlock(&kv->rwl);
  if (kv->dlsnr) { pe_wal_lo = (const char*) kv->dlsnr; pe_wal_hi = pe_wal_lo + malloc_usable_size(kv->dlsnr); }
  else pe_wal_lo = pe_wal_hi = 0;
}

static void dump_all(const char *tag) {
  for (int d = 0; d < NDBS; ++d) {
    IWDB h = 0;
    pthread_rwlock_rdlock(&kv->rwl);
    struct iwdb *x = iwhmap_get_u32(kv->dbs, (uint32_t) d + 1);
    iwdb_flags_t fl = x ? x->dbflg : 0;
    pthread_rwlock_unlock(&kv->rwl);
    if (!x) { printf("%s %d -\n%s %d -\n%s %d -\n", tag, d, tag, d + NDBS, tag, d + 2 * NDBS); continue; }   // a database that does not exist is not created
    iwrc rc = iwkv_db(kv, (uint32_t) d + 1, fl, &h);
    if (rc) { printf("%s %d ERR\n%s %d ERR\n%s %d ERR\n", tag, d, tag, d + NDBS, tag, d + 2 * NDBS); continue; }
    char *f = scan(h); printf("%s %d %s\n", tag, d, f); free(f);
    f = getmeta(h); printf("%s %d %s\n", tag, d + NDBS, f); free(f);
    printf("%s %d %02x\n", tag, d + 2 * NDBS, (fl & IWDB_VNUM64_KEYS) ? 1 : 0);
  }
}

// the mapping at rest must equal what the file and the log say: a snapshot of the mapping is compared with the mapping
// after a checkpoint (log applied to the file, private mapping replaced).  WAL mode only.
// The library's own checkpoint thread (woken e.g. by the end of a backup) replaces the mapping under the exclusive store lock
// WITHOUT the file lock: whoever looks at the mapping from outside the API must hold the store lock as every API call does.
static uint8_t* map_snapshot(size_t *n) {
  uint8_t *mm; size_t sp = 0;
  *n = 0;
  pthread_rwlock_rdlock(&kv->rwl);
  if (kv->fsm.acquire_mmap(&kv->fsm, 0, &mm, &sp)) { pthread_rwlock_unlock(&kv->rwl); return 0; }
  uint8_t *b = malloc(sp + 1);
  memcpy(b, mm, sp);
  kv->fsm.release_mmap(&kv->fsm);
  pthread_rwlock_unlock(&kv->rwl);
  *n = sp;
  return b;
}
static void map_check(int k) {
  if (!kv->dlsnr) return;
  size_t n1, n2;
  uint8_t *b1 = map_snapshot(&n1);
  iwrc rc = iwal_test_checkpoint(kv);
  uint8_t *b2 = map_snapshot(&n2);
  if (rc || !b1 || !b2) { printf("MAPERR %d\n", k); free(b1); free(b2); return; }
  size_t n = n1 < n2 ? n1 : n2, cnt = 0, first = 0, last = 0;
  for (size_t i = 0; i < n; ++i) if (b1[i] != b2[i]) { if (!cnt) first = i; last = i; ++cnt; }
  if (cnt) {
    printf("MAPDIFF %zu %zu %zu ", cnt, first, last);
    size_t m = last - first + 1 > 24 ? 24 : last - first + 1;
    for (size_t i = 0; i < m; ++i) printf("%02x", b1[first + i]);
    printf(" ");
    for (size_t i = 0; i < m; ++i) printf("%02x", b2[first + i]);
    printf("\n");
  }
  free(b1); free(b2);
}

static int one_run(int k) {
  cur_k = k;
  alarm(20);
  unlink(path);
  { char w[1100]; snprintf(w, sizeof(w), "%s-wal", path); unlink(w); }
  unlink(bkpath);
  did_backup = 0;
  memset(dbs, 0, sizeof(dbs));
  if (open_store(path, 1)) { printf("OPENERR %d\n", k); return -1; }
  classify_locks();
  atomic_store(&stamp, 0);
  for (int i = 0; i < nsops; ++i) {
    free(sops[i].ans); sops[i].ans = 0;
    do_op(&sops[i]);
    if (strcmp(sops[i].ans, "OK")) { printf("SETUPERR %d %d %s %s\n", k, i, sops[i].kind, sops[i].ans); }
  }
  IWFS_FSM_STATE st;
  iwkv_state(kv, &st);
  fsize0 = st.exfile.fsize;
  free(aop.ans); aop.ans = 0; free(bop.ans); bop.ans = 0;
  sem_init(&pe_semA, 0, 0); sem_init(&pe_semB, 0, 0);
  atomic_store(&pe_bstate, 0);
  snprintf(pe_bwin, sizeof(pe_bwin), "none");
  pe_k = k;
  pthread_t ta, tb;
  if (have_b) pthread_create(&tb, 0, thread_b, 0);
  pthread_create(&ta, 0, thread_a, 0);
  pthread_join(ta, 0);
  int nrel = pe_nrel, nev = pe_nev;
  if (have_b) {
    if (atomic_load(&pe_bstate) == 0) sem_post(&pe_semB);     // the hand-over point was not reached: B runs after A
    pthread_join(tb, 0);
  }
  iwkv_state(kv, &st);
  printf("RUN %d nrel=%d bwin=%s grew=%d\n", k, nrel, pe_bwin, st.exfile.fsize > fsize0);
  printf("EV");
  for (int i = 0; i < nev; ++i) {
    if (pe_ev[i].t == 'a') printf(" a%s%c", lc_name[(int) pe_ev[i].cls], pe_ev[i].mode); else printf(" r%s", lc_name[(int) pe_ev[i].cls]);
  }
  printf("\n");
  print_call(0, &aop);
  if (have_b) print_call(1, &bop);
  for (int i = 0; i < npops; ++i) { free(pops[i].ans); pops[i].ans = 0; do_op(&pops[i]); print_call(2, &pops[i]); }
  dump_all("FINAL");
  if (npops) { // allocated blocks of the file (space accounting: a page that no operation can reach any more stays counted)
    IWFS_FSM_STATE s2; long na = 0;
    iwkv_state(kv, &s2);
    off_t bs = (off_t) s2.block_size;
    pthread_rwlock_rdlock(&kv->rwl);    // see map_snapshot
    for (off_t a = 0; bs > 0 && a + bs <= s2.exfile.fsize; a += bs) if (!kv->fsm.check_allocation_status(&kv->fsm, a, bs, true)) ++na;
    pthread_rwlock_unlock(&kv->rwl);
    printf("ALLOC %ld\n", na);
  }
  map_check(k);
  iwrc rc = iwkv_close(&kv);
  if (rc) printf("CLOSEERR %d\n", k);
  if (open_store(path, 0)) { printf("REOPENERR %d\n", k); return -1; }
  dump_all("REOPEN");
  rc = iwkv_close(&kv);
  if (rc) printf("CLOSEERR %d\n", k);
  if (did_backup) {
    if (open_store(bkpath, 0)) printf("BACKUPOPENERR %d\n", k);
    else { dump_all("BACKUP"); iwkv_close(&kv); }
  }
  printf("END %d\n", k);
  fflush(stdout);
  alarm(0);
  return nrel;
}

int main(void) {
  static char line[1 << 20];
  char *tv[8];
  if (iwkv_init()) return 2;
  signal(SIGALRM, on_alarm);
  signal(SIGSEGV, on_segv);
  signal(SIGBUS, on_segv);
  signal(SIGABRT, on_segv);
  { const char *e = getenv("PE_WAIT_MS"); if (e && atoi(e) > 0) pe_wait_ms = atoi(e); }
  while (fgets(line, sizeof(line), stdin)) {
    int n = toks(line, tv, 8);
    if (!n) continue;
    if (!strcmp(tv[0], "cfg")) {
      snprintf(path, sizeof(path), "%s", tv[1]);
      snprintf(bkpath, sizeof(bkpath), "%s.bkp", tv[1]);
      wal_on = atoi(tv[2]);
      if (n > 3) metalen = atoi(tv[3]);
    } else if (!strcmp(tv[0], "s") && nsops < MAXS) parse_op(&sops[nsops++], tv + 1, n - 1);
    else if (!strcmp(tv[0], "a")) parse_op(&aop, tv + 1, n - 1);
    else if (!strcmp(tv[0], "b")) { parse_op(&bop, tv + 1, n - 1); have_b = 1; }
    else if (!strcmp(tv[0], "p") && npops < MAXS) parse_op(&pops[npops++], tv + 1, n - 1);
    else if (!strcmp(tv[0], "run")) {
      int kfrom = atoi(tv[1]), kto = n > 2 ? atoi(tv[2]) : 0;
      for (int k = kfrom;; ++k) {           // kto < 0: only kfrom
        int nrel = one_run(k);
        if (nrel < 0) return 1;
        if (kto < 0 || (kto > 0 && k >= kto) || (!kto && k >= nrel)) break;
      }
      printf("DONE\n");
      return 0;
    }
  }
  return 0;
}
