// C07 harness: several threads run short programs against one open store concurrently; every call is logged with
// invocation/response stamps from one atomic counter.  Input (stdin):
//   cfg <path> <wal> <ndb>
//   t <tid> put <db> <keyhex> <valhex> | get <db> <keyhex> | del <db> <keyhex> | scan <db> | sync | checkpoint
//   run
// Output: one line per call  "<tid> <idx> <inv> <res> <answer>", then "DONE"; "HANG" if the watchdog fires.
#include "kv/iwkv.c"
#include "hcommon.h"
#include <pthread.h>
#include <signal.h>
#include <unistd.h>
#include <stdatomic.h>
#include <execinfo.h>

#define MAXT 8
#define MAXO 64
struct opr { char kind[12]; int db; uint8_t *k; size_t kl; uint8_t *v; size_t vl; long inv, res; char *ans; };
static struct opr ops[MAXT][MAXO];
static int nops[MAXT];
static IWKV kv;
static IWDB dbs[4];
static IWDB hdl[MAXT][4];   // per-thread handles obtained concurrently with iwkv_db
static atomic_long stamp;
static pthread_barrier_t bar;

static void on_segv(int sig) { void *bt[32]; int n = backtrace(bt, 32); backtrace_symbols_fd(bt, n, 2); _exit(4); }
static void on_alarm(int sig) { static const char m[] = "HANG\n"; (void) !write(1, m, 5); _exit(3); }

static char* scan(IWDB db) {
  IWKV_cursor c;
  size_t cap = 256, len = 0;
  char *out = malloc(cap);
  out[0] = 0;
  iwrc rc = iwkv_cursor_open(db, &c, IWKV_CURSOR_BEFORE_FIRST, 0);
  if (rc) { snprintf(out, cap, "E%llu", (unsigned long long) rc); return out; }
  while (!(rc = iwkv_cursor_to(c, IWKV_CURSOR_NEXT))) {
    IWKV_val k, v;
    rc = iwkv_cursor_get(c, &k, &v);
    if (rc) break;
    size_t need = len + 2 * (k.size + v.size) + 8;
    if (need > cap) { cap = need * 2; out = realloc(out, cap); }
    for (size_t i = 0; i < k.size; ++i) len += sprintf(out + len, "%02x", ((uint8_t*) k.data)[i]);
    out[len++] = '=';
    for (size_t i = 0; i < v.size; ++i) len += sprintf(out + len, "%02x", ((uint8_t*) v.data)[i]);
    out[len++] = ',';
    out[len] = 0;
    iwkv_kv_dispose(&k, &v);
  }
  iwkv_cursor_close(&c);
  if (rc && rc != IWKV_ERROR_NOTFOUND) { snprintf(out, cap, "E%llu", (unsigned long long) rc); }
  else if (!len) strcpy(out, "-");
  return out;
}

static void* runner(void *arg) {
  int t = (int) (intptr_t) arg;
  pthread_barrier_wait(&bar);
  for (int i = 0; i < nops[t]; ++i) {
    struct opr *o = &ops[t][i];
    char buf[128];
    o->inv = atomic_fetch_add(&stamp, 1);
    IWDB db = (o->db >= 0 && o->db < 4) ? (hdl[t][o->db] ? hdl[t][o->db] : dbs[o->db]) : 0;
    if (!strcmp(o->kind, "opendb")) {
      iwrc rc = iwkv_db(kv, (uint32_t) o->db + 1, 0, &hdl[t][o->db]);
      o->ans = strdup(rc ? "ERR" : "OK");
    } else if (!strcmp(o->kind, "hold")) {
      IWKV_cursor c;
      iwrc rc = db ? iwkv_cursor_open(db, &c, IWKV_CURSOR_BEFORE_FIRST, 0) : 1;
      if (!rc) { usleep(1000 * (o->kl ? o->k[0] : 5)); iwkv_cursor_close(&c); }
      o->ans = strdup("OK");
    } else if (!db && strcmp(o->kind, "sync") && strcmp(o->kind, "checkpoint")) {
      o->ans = strdup("NODB");
    } else if (!strcmp(o->kind, "put")) {
      IWKV_val k = { .data = o->k, .size = o->kl }, v = { .data = o->v, .size = o->vl };
      iwrc rc = iwkv_put(db, &k, &v, 0);
      snprintf(buf, sizeof(buf), "%s", rc ? "ERR" : "OK"); o->ans = strdup(buf);
    } else if (!strcmp(o->kind, "get")) {
      IWKV_val k = { .data = o->k, .size = o->kl }, v = { 0 };
      iwrc rc = iwkv_get(db, &k, &v);
      if (rc == IWKV_ERROR_NOTFOUND) o->ans = strdup("NOTFOUND");
      else if (rc) o->ans = strdup("ERR");
      else {
        char *a = malloc(2 * v.size + 2); size_t l = 0;
        for (size_t j = 0; j < v.size; ++j) l += sprintf(a + l, "%02x", ((uint8_t*) v.data)[j]);
        if (!l) strcpy(a, "-");
        o->ans = a; iwkv_val_dispose(&v);
      }
    } else if (!strcmp(o->kind, "del")) {
      IWKV_val k = { .data = o->k, .size = o->kl };
      iwrc rc = iwkv_del(db, &k, 0);
      o->ans = strdup(rc == IWKV_ERROR_NOTFOUND ? "NOTFOUND" : rc ? "ERR" : "OK");
    } else if (!strcmp(o->kind, "scan")) {
      o->ans = scan(db);
    } else if (!strcmp(o->kind, "sync")) {
      iwrc rc = iwkv_sync(kv, 0);
      o->ans = strdup(rc ? "ERR" : "OK");
    } else if (!strcmp(o->kind, "checkpoint")) {
      iwrc rc = iwal_test_checkpoint(kv);
      o->ans = strdup((rc && rc != IWKV_ERROR_WAL_MODE_REQUIRED) ? "ERR" : "OK");
    } else o->ans = strdup("?");
    o->res = atomic_fetch_add(&stamp, 1);
  }
  return 0;
}

int main(void) {
  static char line[1 << 16];
  char *tv[8];
  int nt = 0, ndb = 1;
  if (iwkv_init()) return 2;
  signal(SIGALRM, on_alarm);
  signal(SIGSEGV, on_segv);
  while (fgets(line, sizeof(line), stdin)) {
    int n = toks(line, tv, 8);
    if (!n) continue;
    if (!strcmp(tv[0], "cfg")) {
      struct iwkv_opts o = { .path = tv[1], .oflags = IWKV_TRUNC, .wal = { .enabled = atoi(tv[2]) != 0,
                             .savepoint_timeout_sec = 100000, .checkpoint_timeout_sec = 200000,
                             .wal_buffer_sz = 64 * 1024, .checkpoint_buffer_sz = 32 * 1024 * 1024 } };
      if (iwkv_open(&o, &kv)) { printf("OPENERR\n"); return 1; }
      ndb = atoi(tv[3]);
      for (int i = 0; i < ndb; ++i) if (iwkv_db(kv, i + 1, 0, &dbs[i])) { printf("DBERR\n"); return 1; }
    } else if (!strcmp(tv[0], "t")) {
      int t = atoi(tv[1]);
      if (t + 1 > nt) nt = t + 1;
      struct opr *o = &ops[t][nops[t]++];
      snprintf(o->kind, sizeof(o->kind), "%s", tv[2]);
      if (n > 3) o->db = atoi(tv[3]);
      if (n > 4) o->kl = unhex(tv[4], &o->k);
      if (n > 5) o->vl = unhex(tv[5], &o->v);
    } else if (!strcmp(tv[0], "run")) {
      pthread_t th[MAXT];
      pthread_barrier_init(&bar, 0, nt);
      alarm(30);
      for (int t = 0; t < nt; ++t) pthread_create(&th[t], 0, runner, (void*) (intptr_t) t);
      for (int t = 0; t < nt; ++t) pthread_join(th[t], 0);
      alarm(0);
      for (int t = 0; t < nt; ++t)
        for (int i = 0; i < nops[t]; ++i)
          printf("%d %d %ld %ld %s\n", t, i, ops[t][i].inv, ops[t][i].res, ops[t][i].ans);
      for (int d = 0; d < 3; ++d) { IWDB fd = 0; if (iwkv_db(kv, d + 1, 0, &fd)) { printf("FINAL %d ERR\n", d); continue; } char *f = scan(fd); printf("FINAL %d %s\n", d, f); free(f); }
      iwrc rc = iwkv_close(&kv);
      printf(rc ? "CLOSEERR\n" : "DONE\n");
      return 0;
    }
  }
  return 0;
}
