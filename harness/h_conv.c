// C19 harness: number codecs and key comparators of the implementation, one query per line.
// Includes iwkv.c itself so that the static comparators are called directly.
#include "kv/iwkv.c"
#include "hcommon.h"

static iwdb_flags_t flags_of(const char *md) {
  return (md[0] == '1' ? IWDB_VNUM64_KEYS : 0) | (md[1] == '1' ? IWDB_REALNUM_KEYS : 0)
         | (md[2] == '1' ? IWDB_COMPOUND_KEYS : 0);
}

// mapping accessor that always refuses: _lx_sblk_cmp_key then reports through its rc that the cached prefix did not decide
static iwrc no_mmap(struct IWFS_FSM *f, off_t off, uint8_t **mm, size_t *sp) { (void) f; (void) off; (void) mm; (void) sp; return IW_ERROR_INVALID_STATE; }

int main(void) {
  static char line[1 << 20];
  char *tv[12];
  while (fgets(line, sizeof(line), stdin)) {
    int n = toks(line, tv, 12);
    if (n == 0) { printf("\n"); continue; }
    if (!strcmp(tv[0], "vnum64") || !strcmp(tv[0], "vnum32")) {
      int is64 = tv[0][4] == '6';
      uint64_t v = strtoull(tv[1], 0, 10);
      uint8_t buf[32];
      memset(buf, 77, sizeof(buf));
      int len;
      if (is64) { IW_SETVNUMBUF64(len, buf, v); } else { IW_SETVNUMBUF(len, buf, (uint32_t) v); }
      printf("%d ", len); puthex(buf, len);
      if (len == 0) { printf(" oob"); } else {
        int step;
        if (is64) { int64_t r; IW_READVNUMBUF64(buf, r, step); printf(" %" PRId64 " %d", r, step); }
        else { int32_t r; IW_READVNUMBUF(buf, r, step); printf(" %d %d", r, step); }
      }
      if (is64) printf(" sz=%d\n", (int) IW_VNUMSIZE(v)); else printf(" sz=%d\n", (int) IW_VNUMSIZE32((uint32_t) v));
    } else if (!strcmp(tv[0], "itoa")) {
      int64_t v = strtoll(tv[1], 0, 10);
      int max = atoi(tv[2]);
      int sz = max < 0 ? 0 : max;
      uint8_t *raw = malloc(sz + 16);
      memset(raw, 0xAA, sz + 16);
      memset(raw + 8, 0x55, sz);
      int ret = iwitoa(v, (char*) raw + 8, max);
      int oob = 0;
      for (int i = 0; i < 8; ++i) if (raw[i] != 0xAA || raw[8 + sz + i] != 0xAA) oob = 1;
      if (oob) printf("OOB\n");
      else { printf("%d ", ret); size_t l = strnlen((char*) raw + 8, sz); puthex(raw + 8, l); printf("\n"); }
      free(raw);
    } else if (!strcmp(tv[0], "atoi")) {
      uint8_t *b; unhex(tv[1], &b);
      printf("%" PRId64 "\n", iwatoi((char*) b)); free(b);
    } else if (!strcmp(tv[0], "bin2hex")) {
      uint8_t *b; size_t l = unhex(tv[1], &b);
      char *out = malloc(2 * l + 1);
      iwbin2hex(out, 2 * l + 1, b, l);
      puthex(out, 2 * l); printf("\n"); free(b); free(out);
    } else if (!strcmp(tv[0], "hex2bin")) {
      uint8_t *b; size_t l = unhex(tv[1], &b);
      char *out = malloc(l + 2);
      size_t r = iwhex2bin((char*) b, (int) l, out, (int) l + 2);
      puthex(out, r); printf("\n"); free(b); free(out);
    } else if (!strcmp(tv[0], "cmp")) {
      iwdb_flags_t fl = flags_of(tv[2]);
      uint8_t *v1, *kd; size_t l1 = unhex(tv[3], &v1), lk = unhex(tv[4], &kd);
      struct iwkv_val key = { .data = kd, .size = lk, .compound = strtoll(tv[5], 0, 10) };
      printf("%d %d\n", sgn(_cmp_keys(fl, v1, (int) l1, &key)), sgn(_cmp_keys_prefix(fl, v1, (int) l1, &key)));
      free(v1); free(kd);
    } else if (!strcmp(tv[0], "sblkcmp") && n >= 6) {
      // sblkcmp <mode> <cached prefix> <full flag> <key data> <compound>: _lx_sblk_cmp_key on a node carrying that prefix
      static struct iwkv kv_; static struct iwdb db_; static struct iwlctx lx_; static struct sblk sb_;
      uint8_t *lk, *kd; size_t ll = unhex(tv[2], &lk), lk2 = unhex(tv[4], &kd);
      struct iwkv_val key = { .data = kd, .size = lk2, .compound = strtoll(tv[5], 0, 10) };
      memset(&kv_, 0, sizeof(kv_)); memset(&db_, 0, sizeof(db_)); memset(&lx_, 0, sizeof(lx_)); memset(&sb_, 0, sizeof(sb_));
      kv_.fsm.acquire_mmap = no_mmap;
      db_.iwkv = &kv_; db_.dbflg = flags_of(tv[1]);
      lx_.db = &db_; lx_.key = &key;
      sb_.db = &db_; sb_.pnum = 1; sb_.flags = atoi(tv[3]) ? SBLK_FULL_LKEY : 0;
      if (ll > sizeof(sb_.lk)) ll = sizeof(sb_.lk);
      memcpy(sb_.lk, lk, ll); sb_.lkl = (uint8_t) ll;
      int res = 7;
      iwrc rc = _lx_sblk_cmp_key(&lx_, &sb_, &res);
      if (rc == IW_ERROR_INVALID_STATE) printf("NONE\n"); else if (rc) printf("ERR\n"); else printf("%d\n", sgn(res));
      free(lk); free(kd);
    } else if (!strcmp(tv[0], "afcmp")) {
      uint8_t *a, *b; size_t la = unhex(tv[2], &a), lb = unhex(tv[3], &b);
      printf("%d\n", sgn(iwafcmp((char*) a, (int) la, (char*) b, (int) lb)));
      free(a); free(b);
    } else if (!strcmp(tv[0], "macro")) {
      if (!strcmp(tv[1], "overlap")) {
        int64_t a = strtoll(tv[2], 0, 10), b = strtoll(tv[3], 0, 10), c = strtoll(tv[4], 0, 10), d = strtoll(tv[5], 0, 10);
        printf("%d\n", (int) IW_RANGES_OVERLAP(a, b, c, d));
      } else if (!strcmp(tv[1], "roundup")) {
        uint64_t a = strtoull(tv[2], 0, 10), b = strtoull(tv[3], 0, 10);
        printf("%" PRIu64 "\n", (uint64_t) IW_ROUNDUP(a, b));
      } else {
        uint64_t a = strtoull(tv[2], 0, 10), b = strtoull(tv[3], 0, 10);
        printf("%" PRIu64 "\n", (uint64_t) IW_ROUNDOWN(a, b));
      }
    } else printf("?\n");
  }
  return 0;
}
