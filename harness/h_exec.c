// C20 harness: runs scenarios on the real iwstw.c / iwtp.c and prints, per scenario, the event trace and the
// per-task outcome.  The two sources are #included so that their pthread calls can be interposed:
//   * every lock/unlock/wait/wake/signal/broadcast/create/join is logged with a small thread id (the same
//     event vocabulary as the IOWOW_VERIF hook of fixes/hook-exec.diff; when /repo carries that hook
//     (IOWOW_VERIF_EXEC_HOOK) the events come from the hook instead and enqueue/dequeue become visible too);
//   * schedule perturbation: seeded yields at every event site, injected spurious wake-ups, slow wake-ups, and
//     scripted "hold thread T at its n-th event K until gate G opens" rules for directed interleavings;
//   * memory reclamation of the executor is deferred to the end of the scenario (quarantine) and
//     pthread_*_destroy are no-ops, so that calls overlapping iwstw_shutdown/iwtp_shutdown stay memory safe and
//     the logic of the executor is what is observed.
// One scenario per input line, one output line per scenario:
//   R k=v ... | T tid:kind:a:b:c ... | X id:api:rc:sched:exec:disc:callst:retst:runst:donest ...
// api digit of a task (apis= / mix): 0 schedule, 1 iwstw_schedule_only, 2 iwstw_schedule_empty_only, 4 queue_size,
// 5 iwtp_threads_busy_num, 6 pause of the submitter until its accepted tasks so far have finished (no library call, no event).
// sdt=<task>[:<wait>] (stw): that task's body calls iwstw_shutdown on its own executor (CALL 3 / RET logged by thread 0).
// wd=<seconds>: watchdog time of this scenario.
// Two kinds of trace tokens are observations of the harness, not events of the executor (iwtp only):
//   tid:18:id0:id1:...  content of tp->threads (small thread ids, in list order; 999 = unknown pthread_t) read by the
//                       thread that holds the mutex, right after its UNLOCK / WAIT event and before the mutex is released
//   tid:19:id           pthread_detach(id) called by thread tid
#include "hcommon.h"
#include <pthread.h>
#include <sched.h>
#include <signal.h>
#include <stdatomic.h>
#include <stdbool.h>
#include <stddef.h>
#include <assert.h>
#include <errno.h>
#include <time.h>
#include <unistd.h>
#include <sys/time.h>
#include "iwstw.h"
#include "iwtp.h"
#include "iwlog.h"
#include "iwp.h"
#include "iwarr.h"

#ifdef IOWOW_VERIF_EXEC_HOOK
#define HOOKED 1
#else
#define HOOKED 0
#endif

enum { K_LOCK = 1, K_UNLOCK, K_WAIT, K_WAKE, K_SIGNAL, K_BCAST, K_ENQ, K_DEQ, K_RUN, K_DONE, K_DISCARD, K_CALL,
       K_RET, K_SPAWN, K_EXIT, K_JOIN, K_FREE, K_REGS, K_DETACH, K_NKIND };
enum { T_WORKER0 = 0, T_SUB0 = 10, T_SHUT = 20, T_OVF0 = 30, T_MAX = 1024 };

#define MAXEV   400000
#define MAXTASK 2048
#define MAXSIDE (1 << 22)
#define MAXREGS 64
#define NGATE   16
#define WATCHDOG_S 25
#define HOLD_TIMEOUT_MS 6000

typedef struct { short tid, kind; int a, b, c; } hev;
static hev LOG[MAXEV];
static atomic_int nlog;
static atomic_int log_overflow;
static int SIDE[MAXSIDE];                 // variable-length payload of the K_REGS observations: LOG[i].a = offset, .b = count
static atomic_int nside;
static __thread int my_tid = -1;
static __thread int quiet;
static __thread uint64_t my_rng;

static atomic_int cnt_tk[T_MAX][K_NKIND]; // events so far per (thread, kind)
static atomic_int cnt_k[K_NKIND];         // events so far per kind
static atomic_int gate[NGATE];
static atomic_int hold_timeouts;
static atomic_long stamp;                 // global order stamps of the black-box observations

typedef struct { char t; int g, tid, kind, nth; } rule;
static rule RULES[64];
static int nrules;

typedef struct {
  int id, api, dur, gate;
  atomic_int exec, disc, fin; // fin: the body has returned or the task was reported to the discard callback
  int rc, sched;
  long callst, retst, runst, donest;
} trec;
static trec TASKS[MAXTASK];
static int ntasks;

// scenario parameters
static struct {
  int tp, lim, blk, cb, nsub, nt, dur, wait, trigk, trign, mix, yp, sp, nthreads, ovf;
  int sdt, sdtwait; // stw: the body of task sdt calls iwstw_shutdown(&stw, sdtwait) on its own executor (-1: none)
  uint64_t seed;
} P;

static void *g_exec;         // the executor struct (quarantined at free)
static _Atomic(void*) g_cond[2]; // its condition variables, 0 = cond, 1 = cond_queue
static atomic_int g_started, g_freed, g_destroying, g_touch_after_free;
static atomic_int subs_done;
static atomic_int shutdown_returned;
static long shutdown_ret_stamp, shutdown_call_stamp;
static int shutdown_rc;
static atomic_int badfn, qmax, bmax;
static atomic_long scen_start;
static atomic_int scen_active;
static int scen_no;
static atomic_int wd_s; // watchdog time of the running scenario (parameter wd=, default WATCHDOG_S)

static uint64_t sm64(uint64_t *s) {
  uint64_t z = (*s += 0x9E3779B97F4A7C15ULL);
  z = (z ^ (z >> 30)) * 0xBF58476D1CE4E5B9ULL;
  z = (z ^ (z >> 27)) * 0x94D049BB133111EBULL;
  return z ^ (z >> 31);
}

static long now_ms(void) {
  struct timespec ts;
  clock_gettime(CLOCK_MONOTONIC, &ts);
  return ts.tv_sec * 1000L + ts.tv_nsec / 1000000L;
}

static void open_gate(int g) { if (g >= 0 && g < NGATE) atomic_store(&gate[g], 1); }

static void wait_gate(int g) {
  long t0 = now_ms();
  while (!atomic_load(&gate[g])) {
    if (now_ms() - t0 > HOLD_TIMEOUT_MS) { atomic_fetch_add(&hold_timeouts, 1); open_gate(g); return; }
    usleep(100);
  }
}

// hold rule: thread is about to produce its n-th event of this kind
static void hold_point(int kind) {
  if (my_tid < 0 || quiet) return;
  for (int i = 0; i < nrules; ++i) {
    rule *r = &RULES[i];
    if (r->t == 'H' && r->tid == my_tid && r->kind == kind && atomic_load(&cnt_tk[my_tid][kind]) + 1 == r->nth) {
      wait_gate(r->g);
    }
  }
}

static int has_hold(int kind) {
  if (my_tid < 0 || quiet) return 0;
  for (int i = 0; i < nrules; ++i) {
    rule *r = &RULES[i];
    if (r->t == 'H' && r->tid == my_tid && r->kind == kind && atomic_load(&cnt_tk[my_tid][kind]) + 1 == r->nth
        && !atomic_load(&gate[r->g])) return 1;
  }
  return 0;
}

static void perturb(void) {
  if (my_tid < 0 || quiet || P.yp <= 0) return;
  uint64_t r = sm64(&my_rng);
  if ((int) (r % 100) < P.yp) {
    if ((r >> 8) % 4 == 0) usleep(1 + (r >> 16) % 60); else sched_yield();
  }
}

static void lg(int kind, int a, int b, int c) {
  if (my_tid < 0 || quiet) return;
  int i = atomic_fetch_add(&nlog, 1);
  if (i >= MAXEV) { atomic_store(&log_overflow, 1); return; }
  LOG[i].tid = (short) my_tid; LOG[i].kind = (short) kind; LOG[i].a = a; LOG[i].b = b; LOG[i].c = c;
  int n = atomic_fetch_add(&cnt_tk[my_tid][kind], 1) + 1;
  int nk = atomic_fetch_add(&cnt_k[kind], 1) + 1;
  for (int j = 0; j < nrules; ++j) {
    rule *r = &RULES[j];
    // O:g:tid:kind:nth opens gate g at the nth event of that kind of thread tid; tid = -1: at the nth such event of any thread
    if (r->t == 'O' && r->kind == kind && ((r->tid == my_tid && r->nth == n) || (r->tid == -1 && r->nth == nk))) open_gate(r->g);
  }
}

// events that the source-level hook reports itself when it is present
static int hook_kind(int kind) { return kind <= K_DEQ; }
static void lgw(int kind, int a, int b, int c) { if (!(HOOKED && hook_kind(kind))) lg(kind, a, b, c); }

static int cond_id(void *c) { return c == atomic_load(&g_cond[1]) ? 1 : 0; }

static void touch(void) { if (atomic_load(&g_freed)) atomic_store(&g_touch_after_free, 1); }

// ---- interposed pthread / free -------------------------------------------------------------------------
static void log_regs(void); // defined below the included sources (needs struct iwtp)
static int small_id(pthread_t t);

static int hx_lock(pthread_mutex_t *m) {
  perturb();
  hold_point(K_LOCK);
  int rc = pthread_mutex_lock(m);
  touch();
  lgw(K_LOCK, 0, 0, 0);
  return rc;
}

static int hx_unlock(pthread_mutex_t *m) {
  lgw(K_UNLOCK, 0, 0, 0);
  log_regs();
  int rc = pthread_mutex_unlock(m);
  perturb();
  return rc;
}

static int hx_wait(pthread_cond_t *c, pthread_mutex_t *m) {
  int id = cond_id(c);
  lgw(K_WAIT, id, 0, 0);
  log_regs();
  uint64_t r = (my_tid >= 0 && !quiet) ? sm64(&my_rng) : 1000;
  int slow = has_hold(K_WAKE);
  if (!slow && P.sp > 0 && (int) (r % 100) < P.sp) { // injected spurious wake-up
    struct timeval tv; struct timespec ts;
    gettimeofday(&tv, 0);
    long us = tv.tv_usec + 50 + (r >> 8) % 2000;
    ts.tv_sec = tv.tv_sec + us / 1000000; ts.tv_nsec = (us % 1000000) * 1000;
    pthread_cond_timedwait(c, m, &ts);
  } else {
    pthread_cond_wait(c, m);
  }
  if (slow || (P.yp > 0 && (int) ((r >> 24) % 100) < P.yp)) {
    // a slow wake-up: the thread takes long to re-acquire the mutex (it has done nothing in between)
    pthread_mutex_unlock(m);
    if (slow) hold_point(K_WAKE); else sched_yield();
    pthread_mutex_lock(m);
  }
  touch();
  lgw(K_WAKE, id, 0, 0);
  return 0;
}

static int hx_signal(pthread_cond_t *c) { lgw(K_SIGNAL, cond_id(c), 0, 0); return pthread_cond_signal(c); }
static int hx_broadcast(pthread_cond_t *c) { lgw(K_BCAST, cond_id(c), 0, 0); return pthread_cond_broadcast(c); }
// pthread_cond_destroy / pthread_mutex_destroy: shutdown is past its joins and starts to tear the executor down
static int hx_nop(void *p) { (void) p; atomic_store(&g_destroying, 1); return 0; }
// pthread_detach(self) of an overflow thread: the harness joins every thread itself at the end of the scenario
static int hx_detach(pthread_t t) { lg(K_DETACH, small_id(t), 0, 0); return 0; }

typedef struct { void*(*fn)(void*); void *arg; int id; } tramp;
static struct { pthread_t t; int id; int joined; } THR[T_MAX];
static int nthr;
static pthread_mutex_t thr_mtx = PTHREAD_MUTEX_INITIALIZER;
static int next_worker, next_ovf;

static int small_id(pthread_t t) {
  int id = 999;
  pthread_mutex_lock(&thr_mtx);
  for (int i = nthr - 1; i >= 0; --i) if (pthread_equal(THR[i].t, t)) { id = THR[i].id; break; }
  pthread_mutex_unlock(&thr_mtx);
  return id;
}

static void *trampoline(void *op) {
  tramp tr = *(tramp*) op;
  free(op);
  my_tid = tr.id;
  my_rng = P.seed * 1000003ULL + (uint64_t) tr.id * 7919ULL;
  void *r = tr.fn(tr.arg);
  lg(K_EXIT, 0, 0, 0);
  return r;
}

static int hx_create(pthread_t *th, const pthread_attr_t *attr, void*(*fn)(void*), void *arg) {
  tramp *tr = malloc(sizeof(*tr));
  tr->fn = fn; tr->arg = arg;
  pthread_mutex_lock(&thr_mtx);
  tr->id = quiet ? next_worker++ : (T_OVF0 + next_ovf++);
  int id = tr->id;
  pthread_mutex_unlock(&thr_mtx);
  if (id >= T_MAX) { free(tr); return EAGAIN; }
  lg(K_SPAWN, id, 0, 0);
  int rc = pthread_create(th, attr, trampoline, tr);
  if (rc == 0) {
    pthread_mutex_lock(&thr_mtx);
    THR[nthr].t = *th; THR[nthr].id = id; THR[nthr].joined = 0; ++nthr;
    pthread_mutex_unlock(&thr_mtx);
  }
  return rc;
}

static int hx_join(pthread_t t, void **ret) {
  int rc = pthread_join(t, ret);
  int id = -1;
  pthread_mutex_lock(&thr_mtx);
  for (int i = 0; i < nthr; ++i) if (pthread_equal(THR[i].t, t) && !THR[i].joined) { id = THR[i].id; THR[i].joined = 1; break; }
  pthread_mutex_unlock(&thr_mtx);
  lg(K_JOIN, id, 0, 0);
  return rc;
}

static void *QUAR[MAXTASK * 2 + 64];
static atomic_int nquar;
static void hx_free(void *p) {
  if (!p) return;
  if (p == g_exec) {
    hold_point(K_FREE);
    lg(K_FREE, 0, 0, 0);
    atomic_store(&g_freed, 1);
  }
  int i = atomic_fetch_add(&nquar, 1);
  if (i < (int) (sizeof(QUAR) / sizeof(QUAR[0]))) QUAR[i] = p; // else: leaked, scenario sizes make this unreachable
}

#define pthread_mutex_lock(m)      hx_lock(m)
#define pthread_mutex_unlock(m)    hx_unlock(m)
#define pthread_cond_wait(c, m)    hx_wait(c, m)
#define pthread_cond_signal(c)     hx_signal(c)
#define pthread_cond_broadcast(c)  hx_broadcast(c)
#define pthread_mutex_destroy(m)   hx_nop(m)
#define pthread_cond_destroy(c)    hx_nop(c)
#define pthread_create(a, b, c, d) hx_create(a, b, c, d)
#define pthread_join(a, b)         hx_join(a, b)
#define pthread_detach(t)          hx_detach(t)
#define free(p)                    hx_free(p)

#define _task      stw_task
#define _worker_fn stw_worker_fn
#include "utils/iwstw.c"
#undef _task
#undef _worker_fn
#define _task      tp_task
#define _worker_fn tp_worker_fn
#include "utils/iwtp.c"
#undef _task
#undef _worker_fn

#undef pthread_mutex_lock
#undef pthread_mutex_unlock
#undef pthread_cond_wait
#undef pthread_cond_signal
#undef pthread_cond_broadcast
#undef pthread_mutex_destroy
#undef pthread_cond_destroy
#undef pthread_create
#undef pthread_join
#undef pthread_detach
#undef free

static struct iwstw *g_stw;
static struct iwtp *g_tp;

// observation of tp->threads by the thread that holds tp->mtx (called between the UNLOCK / WAIT event and the real
// unlock / wait).  Not taken by API callers once shutdown is set: they may overlap the tear-down of the list.
static void log_regs(void) {
  if (!P.tp || my_tid < 0 || quiet) return;
  if (!atomic_load(&g_started)) return; // iwtp_start is still filling the list (the model starts with the full pool)
  struct iwtp *tp = g_tp;
  if (!tp || atomic_load(&g_freed) || atomic_load(&g_destroying)) return;
  if (tp->shutdown && my_tid >= T_SUB0 && my_tid < T_SHUT) return;
  size_t n = iwulist_length(&tp->threads);
  if (n > MAXREGS) n = MAXREGS;
  int off = atomic_fetch_add(&nside, (int) n);
  if (off + (int) n > MAXSIDE) { atomic_store(&log_overflow, 1); return; }
  for (size_t i = 0; i < n; ++i) {
    pthread_t *pt = iwulist_at2(&tp->threads, i);
    SIDE[off + i] = pt ? small_id(*pt) : 999;
  }
  lg(K_REGS, off, (int) n, 0);
}

// ---- task bodies and callbacks -------------------------------------------------------------------------
static int task_id_of(const void *arg) {
  const trec *t = arg;
  if (t >= TASKS && t < TASKS + MAXTASK) return (int) (t - TASKS);
  return -1;
}

static int rc_enum(iwrc rc) {
  if (!rc) return 0;
  if (rc == IW_ERROR_INVALID_STATE) return 1;
  if (rc == IW_ERROR_OVERFLOW) return 2;
  if (rc == IW_ERROR_ASSERTION) return 3;
  return 9;
}

static void task_fn(void *arg) {
  trec *t = arg;
  lgw(K_RUN, t->id, 0, 0);
  t->runst = atomic_fetch_add(&stamp, 1);
  atomic_fetch_add(&t->exec, 1);
  if (!P.tp && t->id == P.sdt) { // iwstw_shutdown from the worker's own thread
    struct iwstw *h = g_stw;
    lg(K_CALL, 3, 0, P.sdtwait);
    iwrc src = iwstw_shutdown(&h, P.sdtwait);
    lg(K_RET, rc_enum(src), 0, 0);
  }
  if (t->gate >= 0) wait_gate(t->gate);
  else if (t->dur == 1) { for (volatile int i = 0; i < 2000; ++i); sched_yield(); }
  else if (t->dur == 2) usleep(1200);
  t->donest = atomic_fetch_add(&stamp, 1);
  lgw(K_DONE, t->id, 0, 0);
  atomic_store(&t->fin, 1);
}

static void discard_cb(iwstw_task_f fn, void *arg) {
  int id = task_id_of(arg);
  if (fn != task_fn || id < 0) { atomic_fetch_add(&badfn, 1); }
  if (id >= 0) { lgw(K_DISCARD, id, 0, 0); atomic_fetch_add(&TASKS[id].disc, 1); atomic_store(&TASKS[id].fin, 1); }
}

#if HOOKED
static void hook_cb(int kind, const void *obj, intptr_t arg) {
  int a = 0;
  if (kind >= K_WAIT && kind <= K_BCAST) a = cond_id((void*) obj);
  else if (kind == K_ENQ || kind == K_DEQ) a = task_id_of((const void*) arg);
  lg(kind, a, 0, 0);
  if (kind == K_ENQ || kind == K_DEQ) perturb(); // yield point between the queue edit and the signal / unlock
}
#endif

// ---- client threads ------------------------------------------------------------------------------------
typedef struct { int idx; int first, n; } subarg;

static void *submitter(void *op) {
  subarg *sa = op;
  my_tid = T_SUB0 + sa->idx;
  my_rng = P.seed * 2654435761ULL + (uint64_t) my_tid * 104729ULL;
  for (int j = 0; j < sa->n; ++j) {
    trec *t = &TASKS[sa->first + j];
    if (t->api == 6) {
      // pause (no library call, no event): until every task this submitter got accepted so far has finished (body returned
      // or reported to the discard callback), i.e. the executor has drained this submitter's work; gives up after 3 s
      long t0 = now_ms();
      for (int q = 0; q < j; ++q) {
        trec *u = &TASKS[sa->first + q];
        while (u->sched && !atomic_load(&u->fin) && !atomic_load(&shutdown_returned) && now_ms() - t0 < 3000) usleep(50);
      }
      t->rc = 0; t->sched = 0;
      continue;
    }
    perturb();
    hold_point(K_CALL);
    if (atomic_load(&shutdown_returned)) { t->api = -1; continue; } // a call may not START after shutdown returned
    iwrc rc;
    bool sched = false;
    t->callst = atomic_fetch_add(&stamp, 1);
    if (t->api == 4 || t->api == 5) {
      lg(K_CALL, t->api, 0, 0);
      int q = t->api == 5 ? iwtp_threads_busy_num(g_tp) : P.tp ? iwtp_queue_size(g_tp) : iwstw_queue_size(g_stw);
      lg(K_RET, q, 0, 0);
      atomic_int *mx = t->api == 5 ? &bmax : &qmax;
      int m = atomic_load(mx);
      while (q > m && !atomic_compare_exchange_weak(mx, &m, q));
      t->rc = 0; t->sched = 0;
      t->retst = atomic_fetch_add(&stamp, 1);
      continue;
    }
    lg(K_CALL, t->api, t->id, 0);
    if (P.tp) { rc = iwtp_schedule(g_tp, task_fn, t); sched = !rc; }
    else if (t->api == 0) { rc = iwstw_schedule(g_stw, task_fn, t); sched = !rc; }
    else if (t->api == 1) { rc = iwstw_schedule_only(g_stw, task_fn, t); sched = !rc; }
    else { rc = iwstw_schedule_empty_only(g_stw, task_fn, t, &sched); }
    t->rc = rc_enum(rc); t->sched = sched && !rc;
    lg(K_RET, t->rc, t->sched, 0);
    t->retst = atomic_fetch_add(&stamp, 1);
  }
  atomic_fetch_add(&subs_done, 1);
  return 0;
}

static void *shutter(void *op) {
  (void) op;
  my_tid = T_SHUT;
  my_rng = P.seed * 40503ULL + 17;
  long t0 = now_ms();
  while (P.trigk != 99 && atomic_load(&subs_done) < P.nsub) { // trig=99: only the hold rules decide
    if (P.trigk > 0 && atomic_load(&cnt_k[P.trigk]) >= P.trign) break;
    if (now_ms() - t0 > HOLD_TIMEOUT_MS) break;
    usleep(50);
  }
  hold_point(K_CALL);
  shutdown_call_stamp = atomic_fetch_add(&stamp, 1);
  lg(K_CALL, 3, 0, P.wait);
  iwrc rc;
  if (P.tp) { struct iwtp *h = g_tp; rc = iwtp_shutdown(&h, P.wait); }
  else { struct iwstw *h = g_stw; rc = iwstw_shutdown(&h, P.wait); }
  shutdown_rc = rc_enum(rc);
  lg(K_RET, shutdown_rc, 0, 0);
  shutdown_ret_stamp = atomic_fetch_add(&stamp, 1);
  atomic_store(&shutdown_returned, 1);
  return 0;
}

// ---- output ------------------------------------------------------------------------------------------------
static char OUT[1 << 24];
static void emit(const char *tag) {
  size_t o = 0;
  int n = atomic_load(&nlog);
  if (n > MAXEV) n = MAXEV;
  o += snprintf(OUT + o, sizeof(OUT) - o,
                "%s scen=%d hook=%d sdcall=%ld sdret=%ld sdrc=%d holdto=%d badfn=%d qmax=%d bmax=%d nev=%d logovf=%d taf=%d | T", tag, scen_no,
                HOOKED, shutdown_call_stamp, shutdown_ret_stamp, shutdown_rc, atomic_load(&hold_timeouts), atomic_load(&badfn),
                atomic_load(&qmax), atomic_load(&bmax), n, atomic_load(&log_overflow), atomic_load(&g_touch_after_free));
  for (int i = 0; i < n && o + 1024 < sizeof(OUT); ++i) {
    hev *e = &LOG[i];
    if (e->kind == K_REGS) {
      o += snprintf(OUT + o, sizeof(OUT) - o, " %d:%d", e->tid, e->kind);
      for (int j = 0; j < e->b && j < MAXREGS; ++j) o += snprintf(OUT + o, sizeof(OUT) - o, ":%d", SIDE[e->a + j]);
    } else if (e->kind == K_CALL) o += snprintf(OUT + o, sizeof(OUT) - o, " %d:%d:%d:%d:%d", e->tid, e->kind, e->a, e->b, e->c);
    else if (e->kind == K_RET) o += snprintf(OUT + o, sizeof(OUT) - o, " %d:%d:%d:%d", e->tid, e->kind, e->a, e->b);
    else if (e->kind == K_LOCK || e->kind == K_UNLOCK || e->kind == K_EXIT || e->kind == K_FREE)
      o += snprintf(OUT + o, sizeof(OUT) - o, " %d:%d", e->tid, e->kind);
    else o += snprintf(OUT + o, sizeof(OUT) - o, " %d:%d:%d", e->tid, e->kind, e->a);
  }
  o += snprintf(OUT + o, sizeof(OUT) - o, " | X");
  for (int i = 0; i < ntasks && o + 128 < sizeof(OUT); ++i) {
    trec *t = &TASKS[i];
    o += snprintf(OUT + o, sizeof(OUT) - o, " %d:%d:%d:%d:%d:%d:%ld:%ld:%ld:%ld", t->id, t->api, t->rc, t->sched,
                  atomic_load(&t->exec), atomic_load(&t->disc), t->callst, t->retst, t->runst, t->donest);
  }
  OUT[o++] = '\n';
  size_t w = 0;
  while (w < o) { ssize_t k = write(1, OUT + w, o - w); if (k <= 0) break; w += (size_t) k; }
}

static void on_crash(int sig) {
  static atomic_int once;
  if (atomic_fetch_add(&once, 1)) _exit(4);
  char tag[32];
  snprintf(tag, sizeof(tag), "CRASH sig=%d", sig);
  emit(tag);
  _exit(4);
}

static void *watchdog(void *op) {
  (void) op;
  for (;;) {
    usleep(200000);
    if (atomic_load(&scen_active) && time(0) - atomic_load(&scen_start) > atomic_load(&wd_s)) {
      emit("HANG");
      _exit(3);
    }
  }
  return 0;
}

// ---- scenario ----------------------------------------------------------------------------------------------
static int kv(const char *tok, const char *key, long *out) {
  size_t n = strlen(key);
  if (!strncmp(tok, key, n) && tok[n] == '=') { *out = strtol(tok + n + 1, 0, 10); return 1; }
  return 0;
}

static void run_scenario(char *line) {
  char *tv[64];
  int nt = toks(line, tv, 64);
  if (nt < 1) { printf("\n"); fflush(stdout); return; }
  memset(&P, 0, sizeof(P));
  P.tp = !strcmp(tv[0], "tp");
  P.nsub = 1; P.nt = 1; P.nthreads = 1; P.trigk = 0; P.seed = 1; P.sdt = -1;
  long wd = WATCHDOG_S;
  nrules = 0;
  char *gt = 0, *apis = 0, *durs = 0;
  for (int i = 1; i < nt; ++i) {
    long v;
    if (kv(tv[i], "lim", &v)) P.lim = (int) v; else if (kv(tv[i], "blk", &v)) P.blk = (int) v;
    else if (kv(tv[i], "cb", &v)) P.cb = (int) v; else if (kv(tv[i], "nsub", &v)) P.nsub = (int) v;
    else if (kv(tv[i], "nt", &v)) P.nt = (int) v; else if (kv(tv[i], "dur", &v)) P.dur = (int) v;
    else if (kv(tv[i], "wait", &v)) P.wait = (int) v; else if (kv(tv[i], "mix", &v)) P.mix = (int) v;
    else if (kv(tv[i], "yp", &v)) P.yp = (int) v; else if (kv(tv[i], "sp", &v)) P.sp = (int) v;
    else if (kv(tv[i], "nthr", &v)) P.nthreads = (int) v; else if (kv(tv[i], "ovf", &v)) P.ovf = (int) v;
    else if (kv(tv[i], "seed", &v)) P.seed = (uint64_t) v;
    else if (kv(tv[i], "wd", &v)) wd = v;
    else if (!strncmp(tv[i], "sdt=", 4)) sscanf(tv[i] + 4, "%d:%d", &P.sdt, &P.sdtwait);
    else if (!strncmp(tv[i], "trig=", 5)) sscanf(tv[i] + 5, "%d:%d", &P.trigk, &P.trign);
    else if (!strncmp(tv[i], "gt=", 3)) gt = tv[i] + 3;       // gated tasks  id:gate,id:gate
    else if (!strncmp(tv[i], "apis=", 5)) apis = tv[i] + 5;   // explicit api per task (digits), overrides mix
    else if (!strncmp(tv[i], "durs=", 5)) durs = tv[i] + 5;   // explicit duration per task (digits)
    else if (!strncmp(tv[i], "rules=", 6)) {
      char *sp = 0;
      for (char *r = strtok_r(tv[i] + 6, ",", &sp); r && nrules < 64; r = strtok_r(0, ",", &sp)) {
        rule *q = &RULES[nrules];
        if (r[0] == 'H' && sscanf(r + 1, ":%d:%d:%d:%d", &q->tid, &q->kind, &q->nth, &q->g) == 4) { q->t = 'H'; ++nrules; }
        else if (r[0] == 'O' && sscanf(r + 1, ":%d:%d:%d:%d", &q->g, &q->tid, &q->kind, &q->nth) == 4) { q->t = 'O'; ++nrules; }
      }
    }
  }
  if (P.nsub < 1) P.nsub = 1; if (P.nsub > 8) P.nsub = 8;
  if (P.nt < 0) P.nt = 0; if (P.nsub * P.nt > MAXTASK) P.nt = MAXTASK / P.nsub;
  if (P.nthreads < 1) P.nthreads = 1; if (P.nthreads > 8) P.nthreads = 8;
  // reset
  atomic_store(&nlog, 0); atomic_store(&log_overflow, 0); atomic_store(&nside, 0);
  memset(cnt_tk, 0, sizeof(cnt_tk)); memset(cnt_k, 0, sizeof(cnt_k)); memset(gate, 0, sizeof(gate));
  atomic_store(&hold_timeouts, 0); atomic_store(&stamp, 1); atomic_store(&subs_done, 0);
  atomic_store(&shutdown_returned, 0); atomic_store(&badfn, 0); atomic_store(&qmax, 0); atomic_store(&bmax, 0);
  atomic_store(&g_started, 0); atomic_store(&g_freed, 0); atomic_store(&g_destroying, 0); atomic_store(&g_touch_after_free, 0); atomic_store(&nquar, 0);
  shutdown_ret_stamp = shutdown_call_stamp = 0; shutdown_rc = -1;
  nthr = 0; next_worker = 0; next_ovf = 0;
  ntasks = P.nsub * P.nt;
  uint64_t rng = P.seed * 0x9E3779B97F4A7C15ULL + 12345;
  size_t napis = apis ? strlen(apis) : 0, ndurs = durs ? strlen(durs) : 0;
  for (int i = 0; i < ntasks; ++i) {
    trec *t = &TASKS[i];
    memset(t, 0, sizeof(*t));
    t->id = i; t->gate = -1; t->rc = -1;
    uint64_t r = sm64(&rng);
    t->dur = P.dur == 3 ? (int) (r % 3) : P.dur;
    if ((size_t) i < ndurs) t->dur = durs[i] - '0';
    int m = (int) ((r >> 8) % 100);
    if ((size_t) i < napis) t->api = apis[i] - '0';
    else if (P.tp) t->api = m < P.mix ? 4 + (int) ((r >> 20) & 1) : 0; // 4 queue_size, 5 threads_busy_num
    else t->api = m < P.mix ? 1 + (int) ((r >> 20) % 3) : 0; // 1 schedule_only, 2 empty_only, 3 -> queue size
    if (t->api == 3 || (t->api == 5 && !P.tp)) t->api = 4;
  }
  if (gt) {
    char *sp = 0;
    for (char *r = strtok_r(gt, ",", &sp); r; r = strtok_r(0, ",", &sp)) {
      int id, g;
      if (sscanf(r, "%d:%d", &id, &g) == 2 && id >= 0 && id < ntasks && g >= 0 && g < NGATE) TASKS[id].gate = g;
    }
  }
  atomic_store(&wd_s, (int) (wd < 1 ? 1 : wd > 600 ? 600 : wd));
  atomic_store(&scen_start, (long) time(0));
  atomic_store(&scen_active, 1);
  // start the executor (its own events are not part of the modelled run)
  my_tid = T_MAX - 1; quiet = 1;
  iwrc rc;
  if (P.tp) {
    rc = iwtp_start_by_spec(&(struct iwtp_spec) { .num_threads = P.nthreads, .queue_limit = P.lim,
                                                   .overflow_threads_factor = P.ovf }, &g_tp);
    g_exec = g_tp;
    if (!rc) { atomic_store(&g_cond[0], (void*) &g_tp->cond); atomic_store(&g_cond[1], (void*) 0); }
  } else {
    rc = iwstw_start("hexec", P.lim, P.blk, &g_stw);
    g_exec = g_stw;
    if (!rc && g_stw) {
      atomic_store(&g_cond[0], (void*) &g_stw->cond); atomic_store(&g_cond[1], (void*) &g_stw->cond_queue);
      if (P.cb) iwstw_set_on_task_discard(g_stw, discard_cb);
    }
  }
  quiet = 0;
  atomic_store(&g_started, 1);
  if (rc || !g_exec) { printf("STARTFAIL\n"); fflush(stdout); atomic_store(&scen_active, 0); return; }
  pthread_t sub[8], sh;
  subarg sa[8];
  for (int i = 0; i < P.nsub; ++i) {
    sa[i].idx = i; sa[i].first = i * P.nt; sa[i].n = P.nt;
    pthread_create(&sub[i], 0, submitter, &sa[i]);
  }
  pthread_create(&sh, 0, shutter, 0);
  for (int i = 0; i < P.nsub; ++i) pthread_join(sub[i], 0);
  pthread_join(sh, 0);
  // overflow threads of iwtp are neither joined nor detached by the library
  for (int i = 0; i < nthr; ++i) if (!THR[i].joined) { pthread_join(THR[i].t, 0); THR[i].joined = 1; }
  atomic_store(&scen_active, 0);
  emit("R");
  int nq = atomic_load(&nquar);
  if (nq > (int) (sizeof(QUAR) / sizeof(QUAR[0]))) nq = (int) (sizeof(QUAR) / sizeof(QUAR[0]));
  for (int i = 0; i < nq; ++i) free(QUAR[i]);
  g_exec = 0; g_stw = 0; g_tp = 0;
}

int main(void) {
  static char line[1 << 16];
  signal(SIGSEGV, on_crash); signal(SIGBUS, on_crash); signal(SIGABRT, on_crash); signal(SIGFPE, on_crash);
  pthread_t wd;
  pthread_create(&wd, 0, watchdog, 0);
#if HOOKED
  iwverif_ev = hook_cb;
#endif
  while (fgets(line, sizeof(line), stdin)) {
    run_scenario(line);
    ++scen_no;
  }
  return 0;
}
